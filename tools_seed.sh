#!/bin/bash
# usage: tools_seed.sh <seed-id> <source _out dir> <prop> [more props]
# confirms a seeded change in a fresh scratch worktree (demo passes clean / fails patched / suite passes patched),
# stores it under /verif/seeded/<seed-id>/ and runs the given property checks against the patched tree.
set -u
ID=$1; SRC=$2; shift 2
DST=/verif/seeded/$ID
mkdir -p $DST
cp $SRC/patch.diff $SRC/demo.py $SRC/meta.json $DST/ 2>/dev/null
WT=/tmp/seedwt_$ID
git -C /repo worktree remove --force $WT 2>/dev/null
git -C /repo worktree add -q --detach $WT HEAD || exit 9
mkdir -p $WT/_out && cp $DST/demo.py $WT/_out/
cd $WT
A=$(PYTHONPATH=$WT timeout 600 /venv/bin/python _out/demo.py >/dev/null 2>&1; echo $?)
if ! git apply $DST/patch.diff 2>/tmp/seed_apply_err && ! git apply --3way $DST/patch.diff 2>>/tmp/seed_apply_err; then echo "PATCH DOES NOT APPLY"; cat /tmp/seed_apply_err; git -C /repo worktree remove --force $WT; exit 8; fi
B=$(PYTHONPATH=$WT timeout 600 /venv/bin/python _out/demo.py >/dev/null 2>&1; echo $?)
T=$(PYTHONPATH=$WT /venv/bin/python -m pytest -q -p no:cacheprovider 2>&1 | tail -1)
echo "seed $ID: demo clean exit=$A, demo patched exit=$B, suite patched: $T"
RES=""
for P in "$@"; do
  OUT=$(cd /verif && VERIF_REPO=$WT bin/check $P 2>&1); RC=$?
  echo "--- check $P on seeded tree: exit=$RC"; echo "$OUT" | grep -E "VIOLATION|failed obligation|CHECKER|UNDECIDED|property " | head -24
  RES="$RES $P:$RC"
done
echo "RESULT $ID: clean=$A patched=$B tests=[$T] checks=$RES" | tee -a $DST/result.txt
cd /; git -C /repo worktree remove --force $WT
