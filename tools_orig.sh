#!/bin/bash
# usage: tools_orig.sh <fix-commit> <prop> [more props]
# re-introduces the defect repaired by <fix-commit> (reverse patch on HEAD) in a scratch worktree and runs the checks:
# each listed check must report a violation (exit 1) - regression test of the checker on the original defects.
set -u
C=$1; shift
ID=orig-$C
DST=/verif/seeded/$ID
mkdir -p $DST
WT=/tmp/seedwt_$ID
git -C /repo worktree remove --force $WT 2>/dev/null
git -C /repo worktree add -q --detach $WT HEAD || exit 9
git -C /repo diff $C $C^ -- netconan > $DST/patch.diff
cd $WT
if ! git apply $DST/patch.diff 2>/tmp/orig_err && ! git apply --3way $DST/patch.diff 2>>/tmp/orig_err; then echo "REVERSE PATCH DOES NOT APPLY"; cat /tmp/orig_err; git -C /repo worktree remove --force $WT; exit 8; fi
git diff -- netconan > $DST/patch.diff
T=$(PYTHONPATH=$WT /venv/bin/python -m pytest -q -p no:cacheprovider 2>&1 | tail -1)
RES=""
for P in "$@"; do
  OUT=$(cd /verif && VERIF_REPO=$WT bin/check $P 2>&1); RC=$?
  echo "--- check $P with defect of $C re-introduced: exit=$RC"; echo "$OUT" | grep -E "VIOLATION|failed obligation|CHECKER|UNDECIDED" | head -5
  RES="$RES $P:$RC"
done
MSG=$(git -C /repo log -1 --format=%s $C)
echo "{\"property\": \"see result\", \"summary\": \"original defect re-introduced by reversing $C ($MSG)\", \"needs\": \"see the commit message of $C\"}" > $DST/meta.json
echo "RESULT $ID: tests=[$T] checks=$RES" | tee $DST/result.txt
cd /; git -C /repo worktree remove --force $WT
