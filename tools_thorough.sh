#!/bin/bash
# run the thorough tier of the given properties (default: all) on the unchanged /repo, one at a time
cd /verif
PROPS="${@:-C01 C02 C03 C04 C05 C06 C07 C08 C09 C10 C11 C12 C13 C14 C15 C16 C17 C18 C19}"
for P in $PROPS; do
  /usr/bin/time -f "wall=%es" bin/check $P --tier thorough 2>&1 | grep -E "^property|VIOLATION|KNOWN|CHECKER|UNDECIDED|stand-in|wall=" ; echo "exit=${PIPESTATUS[0]} $P"
done
