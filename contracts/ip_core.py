"""Contracts for netconan/ip_anonymization.py: the bitwise prefix-preserving scheme."""
from pyvc.sym import *  # noqa
from pyvc.spec import LoopContract
from . import R

M = "netconan.ip_anonymization:"

R.objtype("BaseIp", pyclass=M + "_BaseIpAnonymizer",
          fields={"salt": STR, "cache": BimapT(BITS, BITS), "length": INT, "fmt": Opq("Fmt"),
                  "salter": Opq("Salter"), "preserve_suffix": INT},
          ghost={"c0": SetT(BITS)},          # ghost: key set of the memo at constructor exit (the seeded nodes)
          config=["salter", "salt", "c0"])

O = ObjT("BaseIp")

# ---------------------------------------------------------------- ghost mathematics
R.specfn("Hbit", [("o", O), ("h", BITS)], INT, "o.salter(o.salt, h)")
R.specfn("Seeded", [("o", O), ("h", BITS)], BOOL, "(h + '0') in o.c0")
R.specfn("Flip", [("o", O), ("h", BITS)], INT, "0 if Seeded(o, h) else Hbit(o, h)")
R.specfn("A", [("o", O), ("b", BITS)], BITS,
         "'' if b == '' else A(o, b[:-1]) + bit(Flip(o, b[:-1]) ^ int(b[-1]))", rec=True)
R.specfn("D", [("o", O), ("t", BITS)], BITS,
         "'' if t == '' else D(o, t[:-1]) + bit(Flip(o, D(o, t[:-1])) ^ int(t[-1]))", rec=True)
# what the memo may hold for a key k (m = number of anonymized leading bits)
R.specfn("G", [("o", O), ("m", INT), ("k", BITS)], BITS,
         "A(o, k) if len(k) <= m else A(o, k[:m]) + k[m:]")
R.specfn("Ginv", [("o", O), ("m", INT), ("k", BITS)], BITS,
         "D(o, k) if len(k) <= m else D(o, k[:m]) + k[m:]")

R.pred("InitOK", [("c", SetT(BITS))], [
    ("root", "'' in c"),
    ("closed", "all(implies(k != '', k[:-1] in c and sibling(k) in c) for k in c)"),
])

R.pred("WF", [("o", O)], [
    ("range", "0 <= o.preserve_suffix and o.preserve_suffix <= o.length"),
    ("fmt", "o.fmt == binfmt(o.length)"),
    ("init", "InitOK(o.c0)"),
    ("seed", "all(k in o.cache and o.cache[k] == k for k in o.c0)"),
    ("memo", "all(len(k) <= o.length and o.cache[k] == G(o, o.length - o.preserve_suffix, k) for k in o.cache)"),
])

R.pred("Extends", [("old_c", ANY), ("new_c", ANY)], [
    ("ext", "all(k in new_c and new_c[k] == old_c[k] for k in old_c)"),
])

# ---------------------------------------------------------------- lemmas (pure facts about A, D)
R.lemma("LA_len", [("o", O), ("a", BITS)], [], ["len(A(o, a)) == len(a)"],
        induct="len(a)", triggers=[["A(o, a)"]])

R.lemma("LA_inj", [("o", O), ("a", BITS), ("b", BITS)], ["A(o, a) == A(o, b)"], ["a == b"],
        induct="len(a)", triggers=[["A(o, a)", "A(o, b)"]])

# ---------------------------------------------------------------- function contracts
R.contract(M + "_generate_bit_from_hash",
           types={"salt": STR, "string": STR}, returns=INT,
           ensures=["0 <= result and result <= 1"], pure=True)

R.contract(M + "_BaseIpAnonymizer._anonymize_bits",
           types={"self": O, "bits": BITS}, returns=BITS,
           requires=["WF(self)", "len(bits) <= self.length - self.preserve_suffix"],
           decreases="len(bits)",
           modifies=["self.cache"],
           hint_terms=["A(self, bits)"],
           ensures=["result == A(self, bits)",
                    "WF(self)",
                    "Extends(old(self.cache), self.cache)",
                    "bits in self.cache"])
