"""Contracts for netconan/ip_anonymization.py: the bitwise prefix-preserving scheme."""
from pyvc.sym import *  # noqa
from pyvc.spec import LoopContract
from . import R

M = "netconan.ip_anonymization:"

R.objtype("BaseIp", pyclass=M + "_BaseIpAnonymizer",
          fields={"salt": STR, "cache": BimapT(BITS, BITS), "length": INT, "fmt": Opq("Fmt"),
                  "salter": Opq("Salter"), "preserve_suffix": INT},
          ghost={"c0": SetT(BITS)},          # ghost: key set of the memo at constructor exit (the seeded nodes)
          config=["salter", "salt", "c0"])

O = ObjT("BaseIp")

# ---------------------------------------------------------------- ghost mathematics
R.specfn("Hbit", [("o", O), ("h", BITS)], INT, "o.salter(o.salt, h)")
R.specfn("Seeded", [("o", O), ("h", BITS)], BOOL, "(h + '0') in o.c0")
R.specfn("Flip", [("o", O), ("h", BITS)], INT, "0 if Seeded(o, h) else Hbit(o, h)")
R.specfn("A", [("o", O), ("b", BITS)], BITS,
         "'' if b == '' else A(o, b[:-1]) + bit(Flip(o, b[:-1]) ^ int(b[-1]))", rec=True)
R.specfn("D", [("o", O), ("t", BITS)], BITS,
         "'' if t == '' else D(o, t[:-1]) + bit(Flip(o, D(o, t[:-1])) ^ int(t[-1]))", rec=True)
# what the memo may hold for a key k (m = number of anonymized leading bits)
R.specfn("G", [("o", O), ("m", INT), ("k", BITS)], BITS,
         "A(o, k) if len(k) <= m else A(o, k[:m]) + k[m:]", inline=False)
R.specfn("Ginv", [("o", O), ("m", INT), ("k", BITS)], BITS,
         "D(o, k) if len(k) <= m else D(o, k[:m]) + k[m:]", inline=False)

# the seeded set is a binary tree closed under parent and sibling (opaque: unfolded by instantiation)
R.pred("InitOK", [("c", SetT(BITS))], [
    ("root", "'' in c"),
    ("closed", "all(implies(k != '', k[:-1] in c and sibling(k) in c) for k in c)"),
], opaque=True)

R.pred("WF", [("o", O)], [
    ("range", "0 <= o.preserve_suffix and o.preserve_suffix <= o.length and o.length >= 1"),
    ("fmt", "o.fmt == binfmt(o.length)"),
    ("init", "InitOK(o.c0)"),
    ("seed", "all(k in o.cache and o.cache[k] == k for k in o.c0)"),
    ("memo", "all(len(k) <= o.length and o.cache[k] == G(o, o.length - o.preserve_suffix, k) for k in o.cache)"),
])

R.pred("Extends", [("old_c", ANY), ("new_c", ANY)], [
    ("ext", "all(k in new_c and new_c[k] == old_c[k] for k in old_c)"),
])

# ---------------------------------------------------------------- lemmas (pure facts about A, D)
R.lemma("LA_len", [("o", O), ("a", BITS)], [], ["len(A(o, a)) == len(a)"],
        induct="len(a)", triggers=[["A(o, a)"]])

R.lemma("LA_inj", [("o", O), ("a", BITS), ("b", BITS)], ["A(o, a) == A(o, b)"], ["a == b"],
        induct="len(a)", triggers=[["A(o, a)", "A(o, b)"]])

R.lemma("LD_len", [("o", O), ("t", BITS)], [], ["len(D(o, t)) == len(t)"],
        induct="len(t)", triggers=[["D(o, t)"]])
R.lemma("LAD", [("o", O), ("t", BITS)], [], ["A(o, D(o, t)) == t"],
        induct="len(t)", triggers=[["D(o, t)"]])
R.lemma("LDA", [("o", O), ("a", BITS)], [], ["D(o, A(o, a)) == a"],
        induct="len(a)", triggers=[["A(o, a)"]])

R.lemma("LG_len", [("o", O), ("m", INT), ("a", BITS)], ["0 <= m"], ["len(G(o, m, a)) == len(a)"],
        triggers=[["G(o, m, a)"]])
R.lemma("LG_inj", [("o", O), ("m", INT), ("a", BITS), ("b", BITS)],
        ["0 <= m", "G(o, m, a) == G(o, m, b)"], ["a == b"], triggers=[["G(o, m, a)", "G(o, m, b)"]])

R.lemma("LA_prefix", [("o", O), ("b", BITS), ("j", INT)], ["0 <= j", "j <= len(b)"],
        ["A(o, b)[:j] == A(o, b[:j])"], induct="len(b)", triggers=[],
        proof=["use LA_prefix(o, b[:-1], j)", "inst A(o, b[:j])"])

# property-level theorems (C01): common-prefix length is preserved exactly
# small facts about slices of bit strings (proved, not assumed) used as stepping stones
R.lemma("S_take_app1", [("x", BITS), ("y", BITS), ("n", INT)], ["0 <= n", "n <= len(x)"],
        ["(x + y)[:n] == x[:n]"], triggers=[])
R.lemma("S_take_app2", [("x", BITS), ("y", BITS), ("n", INT)], ["n >= len(x)"],
        ["(x + y)[:n] == x + y[:n - len(x)]"], triggers=[])
R.lemma("S_take_take", [("x", BITS), ("m", INT), ("n", INT)], ["0 <= n", "n <= m"],
        ["x[:m][:n] == x[:n]"], triggers=[])
R.lemma("S_take_drop", [("x", BITS), ("m", INT), ("n", INT)], ["0 <= m", "m <= n", "n <= len(x)"],
        ["x[:n][m:] == x[m:][:n - m]", "x[:n][:m] == x[:m]"], triggers=[])

R.lemma("LG_prefix", [("o", O), ("m", INT), ("a", BITS), ("n", INT)],
        ["0 <= m", "m <= len(a)", "0 <= n", "n <= len(a)"],
        ["G(o, m, a)[:n] == G(o, m, a[:n])"], triggers=[],
        proof=["case n <= m and m < len(a)", "case n <= m and m == len(a)", "case n > m",
               "use LA_prefix(o, a, n)", "use LA_prefix(o, a[:m], n)", "inst A(o, a[:n])",
               "use S_take_app1(A(o, a[:m]), a[m:], n)", "use S_take_app2(A(o, a[:m]), a[m:], n)",
               "use S_take_take(a, m, n)", "use S_take_drop(a, m, n)"])
R.lemma("T_cpl", [("o", O), ("m", INT), ("L", INT), ("a", BITS), ("b", BITS), ("n", INT)],
        ["0 <= m", "m <= L", "len(a) == L", "len(b) == L", "0 <= n", "n <= L"],
        ["(a[:n] == b[:n]) == (G(o, m, a)[:n] == G(o, m, b)[:n])"], triggers=[],
        proof=["use LG_prefix(o, m, a, n)", "use LG_prefix(o, m, b, n)", "use LG_inj(o, m, a[:n], b[:n])"])
R.lemma("T_perm", [("o", O), ("m", INT), ("L", INT), ("x", BITS)],
        ["0 <= m", "m <= L", "len(x) == L"],
        ["Ginv(o, m, G(o, m, x)) == x", "G(o, m, Ginv(o, m, x)) == x",
         "len(G(o, m, x)) == L", "len(Ginv(o, m, x)) == L"], triggers=[])

# seeded nodes are fixed points
R.lemma("LC_parent", [("c", SetT(BITS)), ("k", BITS)], ["InitOK(c)", "k in c"], ["k[:-1] in c"], triggers=[])
R.lemma("S_init_take", [("x", BITS), ("n", INT)], ["0 <= n", "n < len(x)"], ["x[:-1][:n] == x[:n]"], triggers=[])
R.lemma("S_take_all", [("x", BITS), ("n", INT)], ["n >= len(x)"], ["x[:n] == x"], triggers=[])
R.lemma("LC_prefix", [("c", SetT(BITS)), ("k", BITS), ("j", INT)], ["InitOK(c)", "k in c", "0 <= j", "j <= len(k)"],
        ["k[:j] in c"], induct="len(k)", triggers=[],
        proof=["case j == len(k)", "use S_take_all(k, j)",
               "use LC_parent(c, k)", "use LC_prefix(c, k[:-1], j)", "use S_init_take(k, j)"])
R.lemma("LA_seed", [("o", O), ("k", BITS)], ["InitOK(o.c0)", "k in o.c0"], ["A(o, k) == k"],
        induct="len(k)", triggers=[],
        proof=["use LC_parent(o.c0, k)", "use LA_seed(o, k[:-1])"])
R.lemma("S_split", [("x", BITS), ("m", INT)], ["0 <= m"], ["x[:m] + x[m:] == x"], triggers=[])
R.lemma("LG_seed", [("o", O), ("m", INT), ("k", BITS)], ["InitOK(o.c0)", "k in o.c0", "0 <= m"],
        ["G(o, m, k) == k"], triggers=[["G(o, m, k)"]],
        proof=["case len(k) <= m", "use LA_seed(o, k)", "use LC_prefix(o.c0, k, m)", "use LA_seed(o, k[:m])",
               "use S_split(k, m)"])

# ---------------------------------------------------------------- function contracts
R.contract(M + "_generate_bit_from_hash",
           types={"salt": STR, "string": STR}, returns=INT,
           ensures=["0 <= result and result <= 1"], pure=True)

R.contract(M + "_BaseIpAnonymizer._anonymize_bits",
           types={"self": O, "bits": BITS}, returns=BITS,
           requires=["WF(self)", "len(bits) <= self.length - self.preserve_suffix"],
           decreases="len(bits)",
           modifies=["self.cache"],
           hint_terms=["A(self, bits)"],
           ensures=["result == A(self, bits)",
                    "WF(self)",
                    "Extends(old(self.cache), self.cache)",
                    "bits in self.cache"])

R.contract(M + "_BaseIpAnonymizer.anonymize",
           types={"self": O, "ip_int": INT}, returns=INT,
           requires=["WF(self)", "0 <= ip_int and ip_int < pow2(self.length)"],
           modifies=["self.cache"],
           hint_terms=["A(self, B(ip_int, self.length))"],
           use_lemmas={"bidict_put": [
               "LG_inj(self, self.length - self.preserve_suffix, "
               "inv(self.cache)[G(self, self.length - self.preserve_suffix, B(ip_int, self.length))], "
               "B(ip_int, self.length))"]},
           ensures=["B(result, self.length) == G(self, self.length - self.preserve_suffix, B(ip_int, self.length))",
                    "0 <= result and result < pow2(self.length)",
                    "WF(self)",
                    "Extends(old(self.cache), self.cache)",
                    "B(ip_int, self.length) in self.cache"])

R.contract(M + "_BaseIpAnonymizer._deanonymize_bits",
           types={"self": O, "bits": BITS}, returns=BITS,
           requires=["WF(self)", "len(bits) <= self.length - self.preserve_suffix"],
           decreases="len(bits)",
           modifies=["self.cache"],
           hint_terms=["D(self, bits)", "A(self, D(self, bits[:-1]) + '0')", "A(self, D(self, bits[:-1]) + '1')"],
           ensures=["result == D(self, bits)",
                    "WF(self)",
                    "Extends(old(self.cache), self.cache)"])

R.contract(M + "_BaseIpAnonymizer.deanonymize",
           types={"self": O, "ip_int": INT}, returns=INT,
           requires=["WF(self)", "0 <= ip_int and ip_int < pow2(self.length)"],
           modifies=["self.cache"],
           ensures=["B(result, self.length) == Ginv(self, self.length - self.preserve_suffix, B(ip_int, self.length))",
                    "0 <= result and result < pow2(self.length)",
                    "WF(self)",
                    "Extends(old(self.cache), self.cache)"])

R.objtype("Ip6", pyclass=M + "IpV6Anonymizer", base="BaseIp")

KW = {"preserve_suffix": Opt(INT), "salter": Opq("Salter")}

R.contract(M + "_BaseIpAnonymizer.__init__",
           types={"self": O, "salt": STR, "length": INT, "salter": Opq("Salter"), "preserve_suffix": Opt(INT)},
           requires=["length >= 1",
                     "implies(preserve_suffix is not None, 0 <= preserve_suffix and preserve_suffix <= length)"],
           modifies=["self.salt", "self.cache", "self.length", "self.fmt", "self.salter", "self.preserve_suffix",
                     "self.c0"],
           ghost_exit={"self.c0": "dom(self.cache)"},
           ensures=["self.salt == salt", "self.length == length", "self.salter == salter",
                    "self.preserve_suffix == (0 if preserve_suffix is None else preserve_suffix)",
                    "self.fmt == binfmt(length)",
                    "'' in self.cache and self.cache[''] == ''",
                    "all(k == '' for k in self.cache)",
                    "all(k == '' for k in self.c0)",
                    "WF(self)"])

R.contract(M + "IpV6Anonymizer.__init__",
           types={"self": ObjT("Ip6"), "salt": STR, "kwargs": KW},
           requires=["implies(kwargs['preserve_suffix'] is not None, "
                     "0 <= kwargs['preserve_suffix'] and kwargs['preserve_suffix'] <= 128)"],
           modifies=["self"],
           ensures=["self.salt == salt", "self.length == 128", "self.salter == kwargs['salter']",
                    "self.preserve_suffix == (0 if kwargs['preserve_suffix'] is None else kwargs['preserve_suffix'])",
                    "all(k == '' for k in self.c0)",
                    "WF(self)"])

# ---------------------------------------------------------------- IPv4 specifics
R.objtype("Ip4", pyclass=M + "IpAnonymizer", base="BaseIp",
          fields={"_preserve_addresses": Ty("list", Opq("Net"))})
O4 = ObjT("Ip4")

# "ones then zeros, or zeros then ones" (property C05): the 33+33 values, 64 of them distinct
R.specfn("IsMaskSpec", [("x", ANY)], BOOL,
         "any(x == 2**32 - 2**(32 - a) or x == 2**a - 1 for a in range(33))")

R.contract(M + "IpAnonymizer._is_mask",
           types={"self": O4, "possible_mask_int": Ty("bv", 64)}, returns=BOOL, bitvector=64,
           requires=["0 <= possible_mask_int", "possible_mask_int < 4294967296"],
           ensures=["result == IsMaskSpec(possible_mask_int)"], pure=True)

# network text -> bits of the preserved prefix (ghost)
from pyvc.spec import SPEC_BUILTINS, _sp_uf_pred, _sp_uf_fun  # noqa: E402
SPEC_BUILTINS["ValidNet4"] = _sp_uf_pred("ValidNet4", STR)
SPEC_BUILTINS["ip_network"] = _sp_uf_fun("ip_network", Opq("Net"), STR)
SPEC_BUILTINS["net_int"] = _sp_uf_fun("net_int", INT, Opq("Net"))
SPEC_BUILTINS["net_plen"] = _sp_uf_fun("net_plen", INT, Opq("Net"))
SPEC_BUILTINS["InNet"] = _sp_uf_pred("InNet", INT, Opq("Net"))

R.specfn("NetBits", [("s", STR)], BITS, "B(net_int(ip_network(s)), 32)[:net_plen(ip_network(s))]")
# every node on the path of prefix p is seeded (both children pinned to identity)
R.pred("SeededPath", [("c", SetT(BITS)), ("p", BITS)], [
    ("path", "all((p[:q] + '0') in c for q in range(len(p)))"),
], opaque=True)
R.lemma("L_sp_mono", [("c", SetT(BITS)), ("p", BITS), ("x", BITS)], ["SeededPath(c, p)"],
        ["SeededPath(setadd(c, x), p)"], triggers=[["SeededPath(c, p)", "setadd(c, x)"]])
R.lemma("L_initok_add", [("c", SetT(BITS)), ("v", BITS)], ["InitOK(c)", "v in c"],
        ["InitOK(setadd(setadd(c, v + '0'), v + '1'))"],
        triggers=[["InitOK(c)", "setadd(setadd(c, v + '0'), v + '1')"]])
R.lemma("S_snoc", [("x", BITS)], ["len(x) >= 1"], ["x == x[:-1] + '0' or x == x[:-1] + '1'",
                                                   "sibling(x[:-1] + '0') == x[:-1] + '1'"], triggers=[])
R.lemma("L_sp_in", [("c", SetT(BITS)), ("p", BITS)], ["InitOK(c)", "SeededPath(c, p)"], ["p in c"], triggers=[],
        proof=["case len(p) == 0", "use S_snoc(p)", "inst len(p) - 1", "inst p[:-1] + '0'", "inst p[:-1] + '1'",
               "use S_take_take(p, len(p) - 1, len(p) - 1)"])
# property-level theorems for C04/C05
R.lemma("T_seedpath", [("o", O), ("m", INT), ("L", INT), ("p", BITS), ("a", BITS)],
        ["InitOK(o.c0)", "SeededPath(o.c0, p)", "0 <= m", "m <= L", "len(a) == L", "len(p) <= L"],
        ["(a[:len(p)] == p) == (G(o, m, a)[:len(p)] == p)"], triggers=[],
        proof=["use L_sp_in(o.c0, p)", "use LG_seed(o, m, p)", "use LG_prefix(o, m, a, len(p))",
               "use LG_inj(o, m, a[:len(p)], p)"])
R.lemma("T_hostbits", [("o", O), ("m", INT), ("L", INT), ("x", BITS), ("y", BITS)],
        ["0 <= m", "m <= L", "len(x) == L", "len(y) == L"],
        ["G(o, m, x)[m:] == x[m:]", "implies(x[:m] == y[:m], G(o, m, x)[:m] == G(o, m, y)[:m])"], triggers=[],
        proof=["use S_take_all(x, m)", "use S_take_all(y, m)",
               "use S_take_app1(A(o, x[:m]), x[m:], m)", "use S_take_app1(A(o, y[:m]), y[m:], m)",
               "use S_take_all(A(o, x[:m]), m)", "use S_take_all(A(o, y[:m]), m)"])
R.pred("CacheInit", [("o", O)], [
    ("initok", "InitOK(dom(o.cache))"),
    ("ident", "all(o.cache[k] == k and len(k) <= 32 for k in o.cache)"),
])

# the default list, from the property statement: class prefixes A-D(E) and the three RFC 1918 blocks
R.spec_consts["DEFAULT_PREFIXES"] = ("0.0.0.0/1", "128.0.0.0/2", "192.0.0.0/3", "224.0.0.0/4",
                                     "10.0.0.0/8", "172.16.0.0/12", "192.168.0.0/16")

KW4 = {"preserve_suffix": Opt(INT), "salter": Opq("Salter")}
LIST_S = Ty("list", STR)

R.contract(M + "IpAnonymizer.__init__",
           types={"self": O4, "salt": STR, "preserve_prefixes": Opt(LIST_S), "preserve_addresses": Opt(LIST_S),
                  "kwargs": KW4},
           requires=["implies(kwargs['preserve_suffix'] is not None, "
                     "0 <= kwargs['preserve_suffix'] and kwargs['preserve_suffix'] <= 32)",
                     "implies(preserve_prefixes is not None, all(ValidNet4(p) for p in preserve_prefixes))",
                     "implies(preserve_addresses is not None, all(ValidNet4(p) for p in preserve_addresses))"],
           modifies=["self"],
           ghost_exit={"self.c0": "dom(self.cache)"},
           ensures=["self.salt == salt", "self.length == 32", "self.salter == kwargs['salter']",
                    "self.preserve_suffix == (0 if kwargs['preserve_suffix'] is None else kwargs['preserve_suffix'])",
                    "WF(self)",
                    # every listed prefix is seeded: the preserved list is (defaults | user list) ++ preserved addresses
                    "implies(preserve_prefixes is None and preserve_addresses is None, "
                    "all(SeededPath(self.c0, NetBits(p)) for p in cat(DEFAULT_PREFIXES)))",
                    "implies(preserve_prefixes is None and preserve_addresses is not None, "
                    "all(SeededPath(self.c0, NetBits(p)) for p in cat(DEFAULT_PREFIXES, preserve_addresses)))",
                    "implies(preserve_prefixes is not None and preserve_addresses is None, "
                    "all(SeededPath(self.c0, NetBits(p)) for p in cat(old(preserve_prefixes))))",
                    "implies(preserve_prefixes is not None and preserve_addresses is not None, "
                    "all(SeededPath(self.c0, NetBits(p)) for p in cat(old(preserve_prefixes), preserve_addresses)))",
                    "implies(preserve_addresses is None, len(self._preserve_addresses) == 0)",
                    "implies(preserve_addresses is not None, len(self._preserve_addresses) == len(preserve_addresses) and "
                    "all(self._preserve_addresses[j] == ip_network(preserve_addresses[j]) for j in range(len(preserve_addresses))))",
                    ],
           loops={
               0: LoopContract(["subnet_str"], index="_i0", heap_modifies=["self.cache"], invariant=[
                   "CacheInit(self)",
                   "all(SeededPath(dom(self.cache), NetBits(preserve_prefixes[j])) for j in range(_i0))",
               ]),
               1: LoopContract(["position"], index="_i1", heap_modifies=["self.cache"], invariant=[
                   "CacheInit(self)",
                   "all(SeededPath(dom(self.cache), NetBits(preserve_prefixes[j])) for j in range(_i0))",
                   "prefix_bits[:_i1] in self.cache",
                   "all((prefix_bits[:q] + '0') in self.cache for q in range(_i1))",
               ]),
           })

SPEC_BUILTINS["ValidV4Text"] = _sp_uf_pred("ValidV4Text", STR)
SPEC_BUILTINS["ValidV6Text"] = _sp_uf_pred("ValidV6Text", STR)
SPEC_BUILTINS["TextVal4"] = _sp_uf_fun("TextVal4", INT, STR)
SPEC_BUILTINS["TextVal6"] = _sp_uf_fun("TextVal6", INT, STR)
SPEC_BUILTINS["addr_str"] = _sp_uf_fun("addr_str", STR, Opq("Addr"))
SPEC_BUILTINS["addr_of_int"] = _sp_uf_fun("addr_of_int", Opq("Addr"), INT, INT)
SPEC_BUILTINS["addr_of_text4"] = _sp_uf_fun("addr_of_text4", Opq("Addr"), STR)

R.contract(M + "IpAnonymizer.should_anonymize",
           types={"self": O4, "ip_int": INT}, returns=BOOL, pure=True, reads=["self._preserve_addresses"],
           requires=["0 <= ip_int", "ip_int < 4294967296"],
           ensures=["implies(IsMaskSpec(ip_int), not result)",
                    "all(implies(InNet(ip_int, n), not result) for n in self._preserve_addresses)",
                    "implies(not result and not IsMaskSpec(ip_int), "
                    "any(InNet(ip_int, n) for n in self._preserve_addresses))"])

# E-dropzeros (ASSUMED, trusted): the value of a dotted quad ignoring leading zeros depends on the greedy
# captures of _DROP_ZEROS_PATTERN, which SMT regex theories cannot express; conformance-tested in rt_ip.
R.contract(M + "IpAnonymizer.make_addr", trusted=True,
           types={"cls": Ty("cls", "netconan.ip_anonymization", "IpAnonymizer"), "addr_str": STR},
           returns=Opq("Addr"), pure=True,
           raises={"AddressValueError": "not ValidV4Text(addr_str)"},
           ensures=["result == addr_of_text4(addr_str)"])

for _fam, _OT, _L, _valid, _tv in (("v4", O4, 32, "ValidV4Text", "TextVal4"), ("v6", ObjT("Ip6"), 128, "ValidV6Text", "TextVal6")):
    _m = "anonymizer.length - anonymizer.preserve_suffix"
    _should = "%s(match) and anonymizer.should_anonymize(%s(match))" % (_valid, _tv) if _fam == "v4" \
        else "%s(match)" % _valid
    R.contract(M + "_anonymize_match@" + _fam,
               types={"anonymizer": _OT, "match": STR, "undo_ip_anon": BOOL}, returns=STR,
               # any text may arrive here (C14): text the address parser rejects must be returned unchanged
               requires=["WF(anonymizer)", "anonymizer.length == %d" % _L],
               modifies=["anonymizer.cache", "log"],
               ensures=[
                   # masks / preserved addresses / non-addresses: the text exactly as written
                   "implies(not (%s), result == match)" % _should,
                   "implies((%s) and not undo_ip_anon, result == addr_str(addr_of_int(%d, "
                   "V(G(anonymizer, %s, B(%s(match), %d))))))" % (_should, _L, _m, _tv, _L),
                   "implies((%s) and undo_ip_anon, result == addr_str(addr_of_int(%d, "
                   "V(Ginv(anonymizer, %s, B(%s(match), %d))))))" % (_should, _L, _m, _tv, _L),
                   "WF(anonymizer)",
                   "Extends(old(anonymizer.cache), anonymizer.cache)",
                   "implies((%s) and not undo_ip_anon, B(%s(match), %d) in anonymizer.cache)" % (_should, _tv, _L),
               ])

for _fam, _OT, _L, _valid, _tv in (("v4", O4, 32, "ValidV4Text", "TextVal4"), ("v6", ObjT("Ip6"), 128, "ValidV6Text", "TextVal6")):
    _m = "anonymizer.length - anonymizer.preserve_suffix"
    _should = "%s(MATCH) and anonymizer.should_anonymize(%s(MATCH))" % (_valid, _tv) if _fam == "v4" \
        else "%s(MATCH)" % _valid
    # C06/C02/C03: every matched address token is replaced, as a whole, by the canonical text of ITS OWN image (or
    # pre-image when undoing) - or left exactly as written when it is a mask, preserved or not an address
    _STEP = ["implies(not (%s), REPL == MATCH)" % _should,
             "implies((%s) and not undo_ip_anon, REPL == addr_str(addr_of_int(%d, "
             "V(G(anonymizer, %s, B(%s(MATCH), %d))))))" % (_should, _L, _m, _tv, _L),
             "implies((%s) and undo_ip_anon, REPL == addr_str(addr_of_int(%d, "
             "V(Ginv(anonymizer, %s, B(%s(MATCH), %d))))))" % (_should, _L, _m, _tv, _L)]
    R.contract(M + "anonymize_ip_addr@" + _fam,
               types={"anonymizer": _OT, "line": STR, "undo_ip_anon": BOOL}, returns=STR,
               requires=["WF(anonymizer)", "anonymizer.length == %d" % _L],
               modifies=["anonymizer.cache", "log"],
               ensures=["WF(anonymizer)", "Extends(old(anonymizer.cache), anonymizer.cache)"],
               loops={"sub0": LoopContract([], heap_modifies=["anonymizer.cache"], invariant=[
                   "WF(anonymizer)", "Extends(old(anonymizer.cache), anonymizer.cache)"], step_ensures=_STEP)})


# ---------------------------------------------------------------- dump_to_file (C17)
def _out_write(eng, args, kw, node):
    """file.write(s): ghost stream of the strings written (E-os: open(p,'w') writes only p)"""
    f, sarg = args
    c = eng.st.heap[f.rid]
    w = c.fields["written"]
    cur = eng.st.heap[w.rid]
    import z3 as _z3
    eng.st.heap[w.rid] = P(cur.ty, _z3.Concat(cur.term, _z3.Unit(eng.term(sarg, STR))))
    return NoneV()


R.objtype("OutFile", fields={"written": Ty("list", STR)}, ext_methods={"write": _out_write})
OUT = ObjT("OutFile")

R.specfn("DumpLine", [("o", O), ("k", BITS), ("v", BITS), ("L", INT)], STR,
         "addr_str(addr_of_int(L, V(k))) + '\\t' + addr_str(addr_of_int(L, V(v))) + '\\n'")

for _fam, _OT, _L in (("v4", O4, 32), ("v6", ObjT("Ip6"), 128)):
    R.contract(M + "_BaseIpAnonymizer.dump_to_file@" + _fam,
               types={"self": _OT, "file_out": OUT}, returns=NONE,
               requires=["WF(self)", "self.length == %d" % _L],
               modifies=["file_out.written"],
               ensures=[
                   # every full-length key of the memo is written, with exactly the memoised image
                   "all(implies(len(k) == self.length, "
                   "has(file_out.written, DumpLine(self, k, self.cache[k], %d))) for k in self.cache)" % _L,
                   # nothing already written is lost, and at most one line per memo entry is added
                   "len(seq(file_out.written)) <= len(seq(old(file_out.written))) + size(self.cache)",
               ],
               loops={0: LoopContract(["anon_bits", "bits"], index="_i0", heap_modifies=["file_out.written"], invariant=[
                   "all(implies(j < _i0 and len(ENUM[j]) == self.length, "
                   "has(file_out.written, DumpLine(self, ENUM[j], self.cache[ENUM[j]], %d))) for j in range(_n))" % _L,
                   "len(seq(file_out.written)) <= len(seq(old(file_out.written))) + _i0",
               ])})
