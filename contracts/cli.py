"""Contracts for netconan/netconan.py (command line) and the file layer."""
import ast
import z3
from pyvc.sym import *  # noqa
from pyvc.spec import LoopContract, SPEC_BUILTINS
from pyvc.engine import Unsupported
from pyvc import lib
from . import R

M = "netconan.netconan:"
MF = "netconan.anonymize_files:"
LS = Ty("list", STR)

# the parsed options (E-argparse: _parse_args returns, per dest, the command-line value, else the config-file
# value, else the declared default, after applying `type`): any record of this shape
R.objtype("Args", fields={
    "input": STR, "output": STR, "log_level": STR, "undo": BOOL, "anonymize_ips": BOOL, "anonymize_passwords": BOOL,
    "salt": Opt(STR), "dump_ip_map": Opt(STR), "as_numbers": Opt(STR), "reserved_words": Opt(STR),
    "sensitive_words": Opt(STR), "preserve_prefixes": Opt(STR), "preserve_addresses": Opt(STR),
    "preserve_private_addresses": BOOL, "preserve_host_bits": INT})
ARGS = ObjT("Args")


@R.external("logging.getLevelName")
def _lvl(eng, args, kw, node):
    return args[0]


@R.external("logging.basicConfig")
def _basic(eng, args, kw, node):
    return NoneV()


R.contract(M + "_parse_args", trusted=True, types={"argv": ARGS}, returns=ARGS, pure=True,
           ensures=["result.input == argv.input and result.output == argv.output and result.undo == argv.undo",
                    "result.anonymize_ips == argv.anonymize_ips and result.anonymize_passwords == argv.anonymize_passwords",
                    "result.salt == argv.salt and result.dump_ip_map == argv.dump_ip_map",
                    "result.as_numbers == argv.as_numbers and result.reserved_words == argv.reserved_words",
                    "result.sensitive_words == argv.sensitive_words and result.preserve_prefixes == argv.preserve_prefixes",
                    "result.preserve_addresses == argv.preserve_addresses",
                    "result.preserve_private_addresses == argv.preserve_private_addresses",
                    "result.preserve_host_bits == argv.preserve_host_bits"])

# anonymize_files as seen from main: the binding of its parameters is recorded (ghost call record) and it may
# refuse with ValueError.  This facade is what the verified contract anonymize_files@impl (contracts/files.py)
# implies where the option values are well formed; for malformed values it only says ValueError may escape.
R.contract(MF + "anonymize_files", trusted=True, record=True, raises={"ValueError": None, "OSError": None},
           types={"input_path": STR, "output_path": STR, "anon_pwd": BOOL, "anon_ip": BOOL, "salt": Opt(STR),
                  "dumpfile": Opt(STR), "sensitive_words": Opt(LS), "undo_ip_anon": BOOL, "as_numbers": Opt(LS),
                  "reserved_words": Opt(LS), "preserve_prefixes": Opt(LS), "preserve_networks": Opt(LS),
                  "preserve_suffix_v4": Opt(INT), "preserve_suffix_v6": Opt(INT)},
           returns=NONE, modifies=["log"], ensures=["True"])

from pyvc.spec import _sp_uf_fun as _uff  # noqa: E402
SPEC_BUILTINS["SplitComma"] = _uff("py_split_44", SeqT(STR), STR)

REJECT = ("len(argv.input) == 0 or len(argv.output) == 0 or (argv.undo and argv.anonymize_ips) or "
          "(argv.undo and argv.salt is None) or (argv.dump_ip_map is not None and not argv.anonymize_ips)")
ANYOPT = ("(argv.as_numbers is not None) or (argv.sensitive_words is not None) or argv.anonymize_passwords or "
          "argv.anonymize_ips or argv.undo")
RFC1918 = "('10.0.0.0/8', '172.16.0.0/12', '192.168.0.0/16')"

R.contract(M + "main",
           types={"argv": ARGS}, returns=NONE, modifies=["log"],
           # contradictory or unusable combinations are rejected ...
           raises={"ValueError": None, "OSError": None},
           # ... before anything is written (anonymize_files is the only writer): a rejected combination never
           # reaches anonymize_files, and a ValueError that is not such a rejection comes out of anonymize_files
           raises_ensures=["implies(%s, not called('anonymize_files'))" % REJECT,
                           "called('anonymize_files') or ((%s) and raised('ValueError'))" % REJECT],
           ensures=[
               "not (%s)" % REJECT,
               "implies(not (%s), not called('anonymize_files'))" % ANYOPT,
               "implies(%s, ncalls('anonymize_files') == 1)" % ANYOPT,
               "implies(%s, callarg('anonymize_files', 'input_path') == argv.input and "
               "callarg('anonymize_files', 'output_path') == argv.output)" % ANYOPT,
               "implies(%s, callarg('anonymize_files', 'anon_pwd') == argv.anonymize_passwords and "
               "callarg('anonymize_files', 'anon_ip') == argv.anonymize_ips and "
               "callarg('anonymize_files', 'undo_ip_anon') == argv.undo)" % ANYOPT,
               "implies(%s, callarg('anonymize_files', 'salt') == argv.salt and "
               "callarg('anonymize_files', 'dumpfile') == argv.dump_ip_map)" % ANYOPT,
               # the same host-bit count goes to both families
               "implies(%s, callarg('anonymize_files', 'preserve_suffix_v4') == argv.preserve_host_bits and "
               "callarg('anonymize_files', 'preserve_suffix_v6') == argv.preserve_host_bits)" % ANYOPT,
               # --preserve-private-addresses == listing the three RFC 1918 networks as preserved addresses
               "implies((%s) and argv.preserve_private_addresses and argv.preserve_addresses is None, "
               "callarg('anonymize_files', 'preserve_networks') is not None and "
               "seq(callarg('anonymize_files', 'preserve_networks')) == cat(%s))" % (ANYOPT, RFC1918),
               "implies((%s) and not argv.preserve_private_addresses and argv.preserve_addresses is None, "
               "callarg('anonymize_files', 'preserve_networks') is None)" % ANYOPT,
               # ... in addition to the addresses listed with --preserve-addresses, which are always passed on
               "implies((%s) and argv.preserve_private_addresses and argv.preserve_addresses is not None, "
               "callarg('anonymize_files', 'preserve_networks') is not None and "
               "seq(callarg('anonymize_files', 'preserve_networks')) == SplitComma(argv.preserve_addresses) + cat(%s))"
               % (ANYOPT, RFC1918),
               "implies((%s) and not argv.preserve_private_addresses and argv.preserve_addresses is not None, "
               "callarg('anonymize_files', 'preserve_networks') is not None and "
               "seq(callarg('anonymize_files', 'preserve_networks')) == SplitComma(argv.preserve_addresses))" % ANYOPT,
           ] + [
               # every comma-separated option reaches anonymize_files as the list of its items, or as None when absent
               c for opt, par in (("as_numbers", "as_numbers"), ("reserved_words", "reserved_words"),
                                  ("sensitive_words", "sensitive_words"), ("preserve_prefixes", "preserve_prefixes"))
               for c in ("implies((%s) and argv.%s is None, callarg('anonymize_files', '%s') is None)" % (ANYOPT, opt, par),
                         "implies((%s) and argv.%s is not None, callarg('anonymize_files', '%s') is not None and "
                         "seq(callarg('anonymize_files', '%s')) == SplitComma(argv.%s))" % (ANYOPT, opt, par, par, opt))
           ])

R.contract(M + "host_bits",
           types={"x": STR}, returns=INT, pure=True,
           raises={"ValueError": "not IsNumeral(x)", "ArgumentError": "IsNumeral(x) and int(x) > 32"},
           ensures=["result == int(x)", "0 <= result and result <= 32"])


def gen_parse_args_decl(V, repo):
    """declarative obligations on the add_argument calls of _parse_args (documented defaults)"""
    from .regex_obl import emit_bool
    fi = repo.funcs["netconan.netconan:_parse_args"]
    found = {}
    for n in ast.walk(fi.node):
        if isinstance(n, ast.Call) and isinstance(n.func, ast.Attribute) and n.func.attr == "add_argument":
            names = [a.value for a in n.args if isinstance(a, ast.Constant)]
            kws = {k.arg: k.value for k in n.keywords}
            for nm in names:
                found[nm] = kws
    hb = found.get("--preserve-host-bits", {})
    emit_bool(V, "_parse_args#host_bits.default_is_8", isinstance(hb.get("default"), ast.Constant) and hb["default"].value == 8)
    emit_bool(V, "_parse_args#host_bits.type_is_host_bits", isinstance(hb.get("type"), ast.Name) and hb["type"].id == "host_bits")
    pp = found.get("--preserve-prefixes", {})
    ok = False
    try:
        d = pp.get("default")
        ok = ast.unparse(d) in ("','.join(IpAnonymizer.DEFAULT_PRESERVED_PREFIXES)", '",".join(IpAnonymizer.DEFAULT_PRESERVED_PREFIXES)')
    except Exception:
        ok = False
    emit_bool(V, "_parse_args#preserve_prefixes.default_is_class_and_private", ok)
    exp = ("0.0.0.0/1", "128.0.0.0/2", "192.0.0.0/3", "224.0.0.0/4", "10.0.0.0/8", "172.16.0.0/12", "192.168.0.0/16")
    emit_bool(V, "IpAnonymizer#DEFAULT_PRESERVED_PREFIXES.is_classes_and_rfc1918",
              tuple(repo.const("netconan.ip_anonymization", "IpAnonymizer.DEFAULT_PRESERVED_PREFIXES")) == exp)
    for opt, dest_default in (("--salt", None), ("--dump-ip-map", None), ("--as-numbers", None), ("--sensitive-words", None),
                              ("--reserved-words", None), ("--preserve-addresses", None)):
        d = found.get(opt, {}).get("default", "missing")
        emit_bool(V, "_parse_args#%s.default_is_None" % opt.strip("-"), isinstance(d, ast.Constant) and d.value is None)
    for opt in ("--anonymize-ips", "--anonymize-passwords", "--undo", "--preserve-private-addresses"):
        k = found.get(opt, {})
        emit_bool(V, "_parse_args#%s.is_flag_default_false" % opt.strip("-"),
                  isinstance(k.get("action"), ast.Constant) and k["action"].value == "store_true"
                  and isinstance(k.get("default"), ast.Constant) and k["default"].value is False)
    for opt in ("--input", "--output"):
        k = found.get(opt, {})
        emit_bool(V, "_parse_args#%s.required" % opt.strip("-"), isinstance(k.get("required"), ast.Constant) and k["required"].value is True)


def gen_facade_covers_impl(V, repo):
    """the facade of anonymize_files that `main` is verified against must be implied by the verified contract
    anonymize_files@impl: same parameters, no stronger postcondition, every exception and written location of the
    implementation contract allowed by the facade"""
    from .regex_obl import emit_bool
    fac, imp = R.contracts[MF + "anonymize_files"], R.contracts[MF + "anonymize_files@impl"]
    emit_bool(V, "anonymize_files#facade.parameters_as_impl", dict(fac.types) == dict(imp.types))
    emit_bool(V, "anonymize_files#facade.raises_cover_impl",
              set(imp.raises) <= set(fac.raises) and all(fac.raises[e] is None for e in imp.raises))
    emit_bool(V, "anonymize_files#facade.modifies_cover_impl", set(imp.modifies) <= set(fac.modifies))
    emit_bool(V, "anonymize_files#facade.ensures_nothing", list(fac.ensures) == ["True"] and not fac.raises_ensures)
