"""Sidecar contracts for netconan (never imported by netconan itself)."""
from pyvc.spec import Registry

R = Registry()

from . import externals  # noqa: E402,F401
from . import ip_core    # noqa: E402,F401
from . import juniper    # noqa: E402,F401
from . import as_numbers  # noqa: E402,F401
from . import secrets     # noqa: E402,F401
from . import cli         # noqa: E402,F401
from . import files       # noqa: E402,F401
