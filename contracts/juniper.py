"""Contracts for netconan/utils/juniper_secrets.py ($9$ codec).  Module constants (FAMILY, EXTRA, NUM_ALPHA,
ALPHA_NUM, ENCODING, VALID) are read from the working tree on every run."""
from pyvc.sym import *  # noqa
from pyvc.spec import LoopContract, SPEC_BUILTINS
from . import R

M = "netconan.utils.juniper_secrets:"
J = "netconan.utils.juniper_secrets"

# the 65-character alphabet of the $9$ format (from the format definition, independent of the code's tables)
ALPHABET = "QzF3n6/9CAtpu0O" "B1IREhcSyrleKvMW8LXx" "7N-dVbwsY2g4oaJZGUDj" "iHkq.mPf5T"
R.spec_consts["J_ALPHABET"] = ALPHABET
R.spec_consts["J_INDEX"] = {c: i for i, c in enumerate(ALPHABET)}

R.specfn("InAlpha", [("c", STR)], BOOL, "c in J_INDEX")
R.specfn("Idx", [("c", STR)], INT, "J_INDEX[c]")
# gap between two alphabet characters, as the decoder sees it
R.specfn("Gap", [("c1", STR), ("c2", STR)], INT, "(Idx(c2) - Idx(c1) + 65) % 65 - 1")
# decoding one group of len(row) characters s, preceded by character prev
R.specfn("DecRow2", [("prev", STR), ("s", STR), ("w0", INT), ("w1", INT)], INT,
         "(Gap(prev, s[0]) * w0 + Gap(s[0], s[1]) * w1) % 256")
R.specfn("DecRow3", [("prev", STR), ("s", STR), ("w0", INT), ("w1", INT), ("w2", INT)], INT,
         "(Gap(prev, s[0]) * w0 + Gap(s[0], s[1]) * w1 + Gap(s[1], s[2]) * w2) % 256")
R.specfn("DecRow4", [("prev", STR), ("s", STR), ("w0", INT), ("w1", INT), ("w2", INT), ("w3", INT)], INT,
         "(Gap(prev, s[0]) * w0 + Gap(s[0], s[1]) * w1 + Gap(s[1], s[2]) * w2 + Gap(s[2], s[3]) * w3) % 256")


def _sp_decrow(eng, args, kw, n):
    """DecRow(prev, s, row): row is a concrete weight list of length 2..4"""
    prev, s, row = args
    w = row.v
    name = "DecRow%d" % len(w)
    return eng.reg.call_spec(eng, name, [prev, s] + [Conc(x) for x in w], n)


SPEC_BUILTINS["DecRow"] = _sp_decrow

ROW = Ty("oneof", J, "ENCODING")

R.contract(M + "_gap",
           types={"c1": STR, "c2": STR}, returns=INT, pure=True,
           requires=["InAlpha(c1)", "InAlpha(c2)"],
           ensures=["result == Gap(c1, c2)", "0 <= result + 1 and result + 1 < 65"])

R.contract(M + "_nibble",
           types={"chars": STR, "length": INT}, returns=Tup(STR, STR), pure=True,
           requires=["0 <= length"],
           ensures=["result[0] == chars[:length]", "result[1] == chars[length:]"])

R.contract(M + "_fixedc",
           types={"count": INT}, returns=STR, pure=True,
           ensures=["implies(0 <= count and count <= 3, len(result) == count)",
                    "all(InAlpha(result[j]) for j in range(len(result)))"])

# J_char: the group produced for character pc decodes back to pc (for every row of ENCODING, every previous
# character of the alphabet, every code point 0..255) and stays inside the alphabet
R.contract(M + "_gap_encode",
           types={"pc": STR, "prev": STR, "enc": ROW}, returns=STR, pure=True,
           requires=["len(pc) == 1", "InAlpha(prev)"],
           ensures=["len(result) == len(enc)",
                    "all(InAlpha(result[j]) for j in range(len(enc)))",
                    "implies(ord(pc) <= 255, DecRow(prev, result, enc) == ord(pc))"])

R.contract(M + "juniper_nonrandom_encrypt",
           types={"plain": STR, "salt": Opt(STR)}, returns=STR, pure=True,
           # any salt value (None, empty, any first character) and any plaintext over code points 0..255
           ensures=["result[:3] == '$9$'", "len(result) >= 4 + 2 * len(plain)"],
           loops={0: LoopContract(["p"], index="_i0", invariant=[
               "crypt[:3] == '$9$'", "len(crypt) >= 4 + 2 * _i0", "InAlpha(prev)", "pos == _i0"])})

# ASSUMED contract of juniper_decrypt for its callers (its loop is only checked bounded, see C18)
from pyvc.spec import _sp_uf_pred, _sp_uf_fun  # noqa: E402
def _sp_j9valid(eng, args, kw, n):
    """J9Valid(s): s is '$9$' followed by at least four alphabet characters (the language of VALID, see the
    regular-language obligations juniper.VALID#*)"""
    import z3 as _z3
    A = _z3.Union(*[_z3.Re(_z3.StringVal(c)) for c in ALPHABET])
    lang = _z3.Concat(_z3.Re(_z3.StringVal("$9$")), _z3.Loop(A, 4, 4), _z3.Star(A))
    return P(BOOL, _z3.InRe(eng.term(args[0], STR), lang))


def _sp_latin1(eng, args, kw, n):
    import z3 as _z3
    return P(BOOL, _z3.InRe(eng.term(args[0], STR), _z3.Star(_z3.Range(_z3.StringVal(chr(0)), _z3.StringVal(chr(255))))))


SPEC_BUILTINS["Latin1"] = _sp_latin1
SPEC_BUILTINS["J9Valid"] = _sp_j9valid
SPEC_BUILTINS["J9Dec"] = _sp_uf_fun("pure_juniper_decrypt", STR, STR)
# J9Decodable(s): juniper_decrypt(s) returns (uninterpreted).  A VALID-shaped string whose last character group is
# incomplete is refused as well, so decodability is NOT the language of VALID; all that is assumed is that a
# decodable string is VALID-shaped and that what the encoder produces is decodable.
SPEC_BUILTINS["J9Decodable"] = _sp_uf_pred("J9Decodable", STR)


@R.axiom
def j9_decodable_is_valid(eng):
    """ASSUMED with the contract of juniper_decrypt: only VALID-shaped strings are decodable"""
    import z3 as _z3
    from pyvc.lib import uf, S
    x = _z3.Const("j9.s", S)
    A = _z3.Union(*[_z3.Re(_z3.StringVal(c)) for c in ALPHABET])
    lang = _z3.Concat(_z3.Re(_z3.StringVal("$9$")), _z3.Loop(A, 4, 4), _z3.Star(A))
    dec = uf("J9Decodable", S, _z3.BoolSort())
    return [Schema("E-juniper.decodable_is_valid", [x], _z3.Implies(dec(x), _z3.InRe(x, lang)),
                   triggers=[[dec(x)]], origin="theory")]
R.contract(M + "juniper_decrypt", trusted=True,
           types={"crypt": STR}, returns=STR, pure=True,
           raises={"ValueError": "not J9Decodable(crypt)"},
           ensures=["J9Valid(crypt)"])
R.contracts[M + "juniper_nonrandom_encrypt"].trusted_ensures = [
    "implies(len(plain) >= 1, J9Valid(result) and J9Decodable(result))",
    "implies(len(plain) >= 1 and Latin1(plain), J9Dec(result) == plain)"]

# _gap_decode: weighted sum of the gaps modulo 256 as one character; a list of a different length than the row is
# refused.  The list parameter is modelled as a tuple of fixed length, one variant per group length that occurs in
# ENCODING (2, 3, 4); the row parameter is case-split over the real table, so every (length, row) pair — matching or
# not — is covered.  (juniper_decrypt itself stays trusted: this contract pins the callee, not the loop.)
for _n in (2, 3, 4):
    R.contract(M + "_gap_decode@g%d" % _n,
               types={"gaps": Tup(*([INT] * _n)), "dec": ROW}, returns=STR, pure=True,
               raises={"ValueError": "len(dec) != %d" % _n},
               ensures=["len(dec) == %d" % _n, "len(result) == 1",
                        "implies(len(dec) == %d, ord(result) == (%s) %% 256)" % (_n, " + ".join("gaps[%d] * dec[%d]" % (j, j) for j in range(_n)))])
