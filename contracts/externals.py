"""ASSUMED contracts on dependencies (the trusted base).  Each handler records its tag in
eng.used_assumptions; conformance tests for these assumptions live in pyvc/rt_conformance.py."""
import z3

from pyvc.sym import *  # noqa
from pyvc.engine import Unsupported, RaiseSig, zint, zstr
from pyvc import lib
from pyvc.lib import uf, S, I, B, BitsS
from . import R

FmtS = sort_of(Opq("Fmt"))
SalterS = sort_of(Opq("Salter"))


# ---------------------------------------------------------------- E-format
@R.axiom
def e_format(eng):
    """'{:0Lb}'.format(n) = B(n,L); int(b,2) = V(b); mutually inverse on [0,2^L) <-> {0,1}^L."""
    n, L = z3.Int("ef.n"), z3.Int("ef.L")
    x = z3.Const("ef.x", BitsS)
    bf = uf("binfmt", I, FmtS)
    width = uf("fmt_width", FmtS, I)
    p2 = lib.pow2
    out = [
        Schema("E-format.B", [n, L],
               z3.Implies(z3.And(n >= 0, n < p2(L)),
                          z3.And(z3.Length(lib.Bfun(n, L)) == L, lib.Vfun(lib.Bfun(n, L)) == n)),
               triggers=[[lib.Bfun(n, L)]], origin="assumed"),
        Schema("E-format.V", [x],
               z3.And(lib.Vfun(x) >= 0, lib.Vfun(x) < p2(z3.Length(x)),
                      lib.Bfun(lib.Vfun(x), z3.Length(x)) == x),
               triggers=[[lib.Vfun(x)]], origin="assumed"),
        Schema("E-format.width", [L], width(bf(L)) == L, triggers=[[bf(L)]], origin="assumed"),
    ]
    return out


@R.external("meth.Fmt.format")
def fmt_format(eng, args, kw, node):
    f, n = args
    eng.used_assumptions.add("E-format")
    nt = eng.term(n, INT)
    if not eng.spec_mode:
        # negative numbers would give a '-' sign: not a bit string
        eng.emit("%s#enc.bits[format>=0]" % eng.cur_func, nt >= 0, meta={"kind": "encoding"})
    return P(BITS, lib.Bfun(nt, uf("fmt_width", FmtS, I)(f.term)))


# ---------------------------------------------------------------- opaque salter (constructor argument)
def salter_call(eng, f, args, kw, node):
    """`salter(salt, bits)`: precondition of the constructors = pure and bit-valued."""
    salt, h = args
    eng.used_assumptions.add("P-salter: the `salter` argument is a pure function returning 0 or 1 "
                             "(checked for the default _generate_bit_from_hash)")
    ht = h
    if isinstance(h, P) and h.ty == BITS:
        fn = uf("salter_apply", SalterS, S, BitsS, I)
        r = fn(f.term, eng.term(salt, STR), h.term)
    else:
        raise Unsupported("salter called with non-bit-string")
    return P(INT, r)


@R.axiom
def p_salter(eng):
    f = z3.Const("ps.f", SalterS)
    s = z3.Const("ps.s", S)
    h = z3.Const("ps.h", BitsS)
    app = uf("salter_apply", SalterS, S, BitsS, I)(f, s, h)
    return [Schema("P-salter.bit", [f, s, h], z3.And(app >= 0, app <= 1), triggers=[[app]], origin="assumed")]


R.opaque_callables["Salter"] = salter_call


# ---------------------------------------------------------------- E-md5
def md5hex(t):
    return uf("md5hex", S, S)(t)


HEXL = z3.Union(z3.Range("0", "9"), z3.Range("a", "f"))


@R.external("hashlib.md5")
def ext_md5(eng, args, kw, node):
    eng.used_assumptions.add("E-md5")
    data = eng.term(args[0], STR)
    return Special("md5obj", data=data)


@R.external("meth.md5obj.hexdigest")
def ext_hexdigest(eng, args, kw, node):
    h = md5hex(args[0].data)
    eng.st.pc.append(z3.Length(h) == 32)
    eng.st.pc.append(z3.InRe(h, z3.Loop(HEXL, 32, 32)))
    return P(STR, h)


@R.axiom
def e_hex(eng):
    s = z3.Const("eh.s", S)
    h2i = uf("hex2int", S, I)
    return [Schema("E-hex.nonneg", [s], h2i(s) >= 0, triggers=[[h2i(s)]], origin="assumed")]


# ---------------------------------------------------------------- E-bidict
@R.external("bidict.bidict")
def ext_bidict(eng, args, kw, node):
    """bidict(d) for a literal dict d with pairwise distinct values"""
    eng.used_assumptions.add("E-bidict")
    a = args[0] if args else Conc({})
    if not isinstance(a, Conc) or not isinstance(a.v, dict):
        raise Unsupported("bidict() of a non-literal")
    if len(set(a.v.values())) != len(a.v):
        raise RaiseSig("ValueDuplicationError")
    return Special("dict_lit", pairs=[(Conc(k), Conc(v)) for k, v in a.v.items()])
