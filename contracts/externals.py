"""ASSUMED contracts on dependencies (the trusted base).  Each handler records its tag in
eng.used_assumptions; conformance tests for these assumptions live in pyvc/rt_conformance.py."""
import ast
import z3

from pyvc.sym import *  # noqa
from pyvc.engine import Unsupported, RaiseSig, zint, zstr
from pyvc import lib
from pyvc.spec import spec_builtin
from pyvc.lib import uf, S, I, B, BitsS
from . import R

FmtS = sort_of(Opq("Fmt"))
SalterS = sort_of(Opq("Salter"))


# ---------------------------------------------------------------- E-format
@R.axiom
def e_format(eng):
    """'{:0Lb}'.format(n) = B(n,L); int(b,2) = V(b); mutually inverse on [0,2^L) <-> {0,1}^L."""
    n, L = z3.Int("ef.n"), z3.Int("ef.L")
    x = z3.Const("ef.x", BitsS)
    bf = uf("binfmt", I, FmtS)
    width = uf("fmt_width", FmtS, I)
    p2 = lib.pow2
    out = [
        Schema("E-format.B", [n, L],
               z3.Implies(z3.And(n >= 0, n < p2(L)),
                          z3.And(z3.Length(lib.Bfun(n, L)) == L, lib.Vfun(lib.Bfun(n, L)) == n)),
               triggers=[[lib.Bfun(n, L)]], origin="assumed"),
        Schema("E-format.V", [x],
               z3.And(lib.Vfun(x) >= 0, lib.Vfun(x) < p2(z3.Length(x)),
                      lib.Bfun(lib.Vfun(x), z3.Length(x)) == x),
               triggers=[[lib.Vfun(x)]], origin="assumed"),
        Schema("E-format.width", [L], width(bf(L)) == L, triggers=[[bf(L)]], origin="assumed"),
    ]
    return out


@R.external("meth.Fmt.format")
def fmt_format(eng, args, kw, node):
    f, n = args
    eng.used_assumptions.add("E-format")
    nt = eng.term(n, INT)
    if not eng.spec_mode:
        # negative numbers would give a '-' sign: not a bit string
        eng.emit("%s#enc.bits[format>=0]" % eng.cur_func, nt >= 0, meta={"kind": "encoding"})
    return P(BITS, lib.Bfun(nt, uf("fmt_width", FmtS, I)(f.term)))


# ---------------------------------------------------------------- opaque salter (constructor argument)
def salter_call(eng, f, args, kw, node):
    """`salter(salt, bits)`: precondition of the constructors = pure and bit-valued."""
    salt, h = args
    eng.used_assumptions.add("P-salter: the `salter` argument is a pure function returning 0 or 1 "
                             "(checked for the default _generate_bit_from_hash)")
    ht = h
    if isinstance(h, P) and h.ty == BITS:
        fn = uf("salter_apply", SalterS, S, BitsS, I)
        r = fn(f.term, eng.term(salt, STR), h.term)
    else:
        raise Unsupported("salter called with non-bit-string")
    return P(INT, r)


@R.axiom
def p_salter(eng):
    f = z3.Const("ps.f", SalterS)
    s = z3.Const("ps.s", S)
    h = z3.Const("ps.h", BitsS)
    app = uf("salter_apply", SalterS, S, BitsS, I)(f, s, h)
    return [Schema("P-salter.bit", [f, s, h], z3.And(app >= 0, app <= 1), triggers=[[app]], origin="assumed")]


R.opaque_callables["Salter"] = salter_call


# ---------------------------------------------------------------- E-md5
def md5hex(t):
    return uf("md5hex", S, S)(t)


HEXL = z3.Union(z3.Range("0", "9"), z3.Range("a", "f"))


@R.external("hashlib.md5")
def ext_md5(eng, args, kw, node):
    eng.used_assumptions.add("E-md5")
    data = eng.term(args[0], STR)
    return Special("md5obj", data=data)


@R.external("meth.md5obj.hexdigest")
def ext_hexdigest(eng, args, kw, node):
    h = md5hex(args[0].data)
    eng.st.pc.append(z3.Length(h) == 32)
    eng.st.pc.append(z3.InRe(h, z3.Loop(HEXL, 32, 32)))
    return P(STR, h)


@R.axiom
def e_hex(eng):
    s = z3.Const("eh.s", S)
    h2i = uf("hex2int", S, I)
    return [Schema("E-hex.nonneg", [s], h2i(s) >= 0, triggers=[[h2i(s)]], origin="assumed")]


# ---------------------------------------------------------------- E-bidict
@R.external("bidict.bidict")
def ext_bidict(eng, args, kw, node):
    """bidict(d) for a literal dict d with pairwise distinct values"""
    eng.used_assumptions.add("E-bidict")
    a = args[0] if args else Conc({})
    if not isinstance(a, Conc) or not isinstance(a.v, dict):
        raise Unsupported("bidict() of a non-literal")
    if len(set(a.v.values())) != len(a.v):
        raise RaiseSig("ValueDuplicationError")
    return Special("dict_lit", pairs=[(Conc(k), Conc(v)) for k, v in a.v.items()])


# ---------------------------------------------------------------- E-ipaddress
NetS = sort_of(Opq("Net"))
AddrS = sort_of(Opq("Addr"))
net_of_str = uf("ip_network", S, NetS)
valid_net = uf("ValidNet4", S, B)          # strict IPv4 network / address text accepted by ip_network()
net_int = uf("net_int", NetS, I)           # int(net.network_address)
net_plen = uf("net_plen", NetS, I)
addr_of_int = uf("addr_of_int", I, I, AddrS)   # (family bits, value)
addr_int = uf("addr_int", AddrS, I)
addr_str = uf("addr_str", AddrS, S)
in_net = uf("InNet", I, NetS, B)
text_val4 = uf("TextVal4", S, I)           # value of dotted-quad text ignoring leading zeros
text_val6 = uf("TextVal6", S, I)
valid_v4 = uf("ValidV4Text", S, B)
valid_v6 = uf("ValidV6Text", S, B)
addr_of_text6 = uf("addr_of_text6", S, AddrS)
addr_of_text4 = uf("addr_of_text4", S, AddrS)

P32 = 4294967296
P128 = 2 ** 128


_LIT_FACTS = {}


def _needs(sc, decls):
    sc.needs_decls = set(decls)
    return sc


def _literal_net_facts(eng):
    """ip_network() on the literal network strings of the working tree (computed with the stdlib ipaddress of the
    engine's interpreter; part of assumed contract E-ipaddress, conformance-tested against /venv's)."""
    import ipaddress as _ip
    lits = set(R.spec_consts.get("DEFAULT_PREFIXES", ()))
    for name in ("IpAnonymizer.DEFAULT_PRESERVED_PREFIXES", "IpAnonymizer.RFC_1918_NETWORKS"):
        try:
            lits |= set(eng.repo.const("netconan.ip_anonymization", name))
        except KeyError:
            pass
    key = tuple(sorted(lits))
    if key in _LIT_FACTS:
        return _LIT_FACTS[key]
    out = []
    for l in key:
        try:
            n = _ip.ip_network(l)
            if n.version != 4:
                raise ValueError
            out.append(_needs(Schema("E-ipaddress.lit[%s]" % l, [], z3.And(
                valid_net(zstr(l)), net_plen(net_of_str(zstr(l))) == n.prefixlen,
                net_int(net_of_str(zstr(l))) == int(n.network_address)), triggers=None, origin="assumed"),
                {"ValidNet4", "ip_network"}))
        except ValueError:
            out.append(Schema("E-ipaddress.lit[%s]" % l, [], z3.Not(valid_net(zstr(l))), triggers=None,
                              origin="assumed"))
    _LIT_FACTS[key] = out
    return out


@R.axiom
def e_ipaddress(eng):
    n = z3.Const("ei.n", NetS)
    x, f = z3.Int("ei.x"), z3.Int("ei.f")
    s = z3.Const("ei.s", S)
    p2 = lib.pow2
    return [
        Schema("E-ipaddress.net", [n], z3.And(net_plen(n) >= 0, net_plen(n) <= 32, net_int(n) >= 0, net_int(n) < P32),
               triggers=[[net_plen(n)], [net_int(n)]], origin="assumed"),
        Schema("E-ipaddress.addr_int", [f, x], addr_int(addr_of_int(f, x)) == x,
               triggers=[[addr_of_int(f, x)]], origin="assumed"),
        Schema("E-ipaddress.innet", [x, n],
               in_net(x, n) == (z3.SubSeq(lib.Bfun(x, zint(32)), zint(0), net_plen(n)) ==
                                z3.SubSeq(lib.Bfun(net_int(n), zint(32)), zint(0), net_plen(n))),
               triggers=[[in_net(x, n)]], origin="assumed"),
        Schema("E-ipaddress.text4", [s], z3.Implies(valid_v4(s), z3.And(
            text_val4(s) >= 0, text_val4(s) < P32, addr_int(addr_of_text4(s)) == text_val4(s))),
            triggers=[[addr_of_text4(s)], [text_val4(s)]], origin="assumed"),
        Schema("E-ipaddress.text6", [s], z3.Implies(valid_v6(s), z3.And(
            text_val6(s) >= 0, text_val6(s) < P128, addr_int(addr_of_text6(s)) == text_val6(s))),
            triggers=[[addr_of_text6(s)], [text_val6(s)]], origin="assumed"),
    ] + _literal_net_facts(eng) + [
        _needs(Schema("E-pow2.32", [], p2(zint(32)) == P32, triggers=None, origin="assumed"), {"pow2"}),
        _needs(Schema("E-pow2.128", [], p2(zint(128)) == P128, triggers=None, origin="assumed"), {"pow2"}),
    ]


@R.external("ipaddress.ip_network")
def ext_ip_network(eng, args, kw, node):
    eng.used_assumptions.add("E-ipaddress")
    s = eng.term(args[0], STR)
    ok = valid_net(s)
    if eng.may_catch("ValueError") and not eng.spec_mode:
        if not eng.decide(ok):
            raise RaiseSig("ValueError")
    else:
        eng.safety("ip_network[valid text]", ok, node)
    return P(Opq("Net"), net_of_str(s))


@R.external("attr.Net.network_address")
def net_network_address(eng, args, kw, node):
    n = args[0].term
    return P(Opq("Addr"), addr_of_int(zint(32), net_int(n)))


@R.external("attr.Net.prefixlen")
def net_prefixlen(eng, args, kw, node):
    return P(INT, net_plen(args[0].term))


@R.external("int.of.Addr")
def int_of_addr(eng, args, kw, node):
    return P(INT, addr_int(args[0].term))


def _addr_ctor(bits):
    def h(eng, args, kw, node):
        eng.used_assumptions.add("E-ipaddress")
        a = args[0]
        if isinstance(a, Conc) and isinstance(a.v, int):
            a = P(INT, zint(a.v))
        if isinstance(a, P) and a.ty == INT:
            lim = P32 if bits == 32 else P128
            ok = z3.And(a.term >= 0, a.term < lim)
            if eng.may_catch("ValueError") and not eng.spec_mode:
                if not eng.decide(ok):
                    raise RaiseSig("AddressValueError")
            else:
                eng.safety("IPv%dAddress[int range]" % (4 if bits == 32 else 6), ok, node)
            return P(Opq("Addr"), addr_of_int(zint(bits), a.term))
        s = eng.term(a, STR)
        ok = valid_v4(s) if bits == 32 else valid_v6(s)
        if eng.may_catch("ValueError") and not eng.spec_mode:
            if not eng.decide(ok):
                raise RaiseSig("AddressValueError")
        else:
            eng.safety("IPv%dAddress[valid text]" % (4 if bits == 32 else 6), ok, node)
        return P(Opq("Addr"), (addr_of_text4 if bits == 32 else addr_of_text6)(s))
    return h


R.ext["ipaddress.IPv4Address"] = _addr_ctor(32)
R.ext["ipaddress.IPv6Address"] = _addr_ctor(128)


@R.external("ipaddress.ip_address")
def ext_ip_address(eng, args, kw, node):
    """ip_address(int): IPv4 below 2**32 (only use in netconan: IpAnonymizer.should_anonymize)"""
    eng.used_assumptions.add("E-ipaddress")
    a = args[0]
    t = eng.term(a, INT)
    eng.safety("ip_address[int range]", z3.And(t >= 0, t < P32), node)
    return P(Opq("Addr"), addr_of_int(zint(32), t))


@R.external("Net.contains")
def ext_in_net(eng, args, kw, node):
    net, ip = args
    return in_net(addr_int(ip.term), net.term)


@R.external("str.of.Addr")
def str_of_addr(eng, args, kw, node):
    return P(STR, addr_str(args[0].term))


# ---------------------------------------------------------------- symbolic lists (value semantics; cells in the heap)
@R.external("comprehension")
def ext_comprehension(eng, args, kw, node):
    """[f(x) for x in L] over a symbolic sequence L: fresh sequence r, len(r)==len(L), r[j]==f(L[j])."""
    n, kind, it = args
    src = lib.seq_of(eng, it)
    if src is None and kind == "list" and _set_term(eng, it) is not None:
        return ext_set_comprehension(eng, args, kw, node)     # [f(x) for x in a_set ...]: only its set of values matters
    if src is None:
        raise Unsupported("comprehension over %r" % (it,))
    g = n.generators[0]
    if g.ifs:
        return ext_filter_comprehension(eng, args, kw, node)
    if kind != "list":
        raise Unsupported("%s comprehension over symbolic sequence" % kind)
    i = z3.Int(eng.fresh_name("comp.i"))
    ln = z3.Length(src.term)
    saved = dict(eng.st.vars)
    mark = len(eng.fresh_log)
    eng.guards.append(z3.And(i >= 0, i < ln))
    try:
        eng.assign(g.target, P(src.ty.args[0], src.term[i]))
        v = eng.ev(n.elt)
    except RaiseSig:
        eng.st.pc.append(z3.And(i >= 0, i < ln))     # the element that raised exists
        raise
    finally:
        eng.guards.pop()
        eng.st.vars = saved
    if isinstance(v, P) and v.ty == BOOL:
        return Special("mapped", src=src, body=v.term, ivar=i)
    if not isinstance(v, P):
        raise Unsupported("comprehension element %r" % (v,))
    # symbols created while evaluating the element stand for ONE element: generalise them to functions of the index
    created = set(eng.fresh_log[mark:])
    subs = []
    stack, seen = [v.term], set()
    while stack:
        t = stack.pop()
        if t.get_id() in seen:
            continue
        seen.add(t.get_id())
        if z3.is_app(t):
            if t.num_args() == 0 and t.decl().kind() == z3.Z3_OP_UNINTERPRETED and t.decl().name() in created:
                subs.append(t)
            stack.extend(t.children())
    r = z3.Const(eng.fresh_name("comp"), sort_of(SeqT(v.ty)))
    eng.st.pc.append(z3.Length(r) == ln)
    j = z3.Int(eng.fresh_name("comp.j"))
    pairs = [(i, j)] + [(c, z3.Function(eng.fresh_name("comp.fn"), z3.IntSort(), c.sort())(j)) for c in subs]
    eng.st.schemas.append(Schema("comp.elem", [j], z3.Implies(z3.And(j >= 0, j < ln),
                                                               r[j] == z3.substitute(v.term, *pairs))))
    return lib.alloc(eng, Ty("list", v.ty), P(SeqT(v.ty), r), "cell.comp")


def ext_filter_comprehension(eng, args, kw, node):
    """[f(x) for x in L if c(x)]: fresh sequence r with
         forall k. c(L[k]) => r contains f(L[k])                      (nothing selected is dropped)
         forall t < len(r). r[t] == f(L[src(t)]) and c(L[src(t)])     (nothing else is in r; src = skolem function)
       order and multiplicity are left unspecified."""
    n, kind, it = args
    src = lib.seq_of(eng, it)
    g = n.generators[0]
    i = z3.Int(eng.fresh_name("fcomp.i"))
    ln = z3.Length(src.term)
    saved = dict(eng.st.vars)
    eng.guards.append(z3.And(i >= 0, i < ln))
    try:
        if isinstance(g.target, ast.Name):
            eng.st.vars[g.target.id] = P(src.ty.args[0], src.term[i])     # no let-binding: the index is generalised below
        else:
            eng.assign(g.target, P(src.ty.args[0], src.term[i]))
        conds = [eng.truth(eng.ev(c)) for c in g.ifs]
        eng.guards.append(z3.And(conds))
        try:
            v = eng.ev(n.elt)
        finally:
            eng.guards.pop()
    finally:
        eng.guards.pop()
        eng.st.vars = saved
    if isinstance(v, TupV) and len(v.items) == 2 and all(isinstance(x, P) and x.ty == STR for x in v.items):
        v = P(Opq("Pair"), mkpair(v.items[0].term, v.items[1].term))
    if not isinstance(v, P):
        raise Unsupported("filtered comprehension element %r" % (v,))
    cond = z3.And(conds)
    r = z3.Const(eng.fresh_name("fcomp"), sort_of(SeqT(v.ty)))
    srcf = z3.Function(eng.fresh_name("fcomp.src"), z3.IntSort(), z3.IntSort())
    k = z3.Int(eng.fresh_name("fcomp.k"))
    t = z3.Int(eng.fresh_name("fcomp.t"))
    eng.st.schemas.append(Schema("fcomp.complete", [k], z3.Implies(
        z3.And(k >= 0, k < ln, z3.substitute(cond, (i, k))), z3.Contains(r, z3.Unit(z3.substitute(v.term, (i, k)))))))
    eng.st.schemas.append(Schema("fcomp.sound", [t], z3.Implies(z3.And(t >= 0, t < z3.Length(r)), z3.And(
        srcf(t) >= 0, srcf(t) < ln, z3.substitute(cond, (i, srcf(t))), r[t] == z3.substitute(v.term, (i, srcf(t)))))))
    return lib.alloc(eng, Ty("list", v.ty), P(SeqT(v.ty), r), "cell.fcomp")


@R.external("cell.extend")
def ext_extend(eng, args, kw, node):
    recv, other = args
    c = eng.st.heap[recv.rid]
    a = lib.seq_of(eng, recv)
    b = lib.seq_of(eng, other)
    if a is None and b is not None:
        a = P(b.ty, z3.Empty(sort_of(b.ty)))
    if b is None and a is not None:
        b = P(a.ty, z3.Empty(sort_of(a.ty)))
    if a is None:
        return NoneV()
    eng.st.heap[recv.rid] = P(a.ty, z3.Concat(a.term, b.term))
    return NoneV()


def _list_extend(eng, ref, c, other):
    return ext_extend(eng, [ref, other], {}, None)


R.list_extend = _list_extend


@R.axiom
def seq_facts(eng):
    """theorems of the sequence theory (not assumptions), given as instantiation help"""
    out = []
    for tag, SS in (("", sort_of(SeqT(STR))), (".pair", z3.SeqSort(z3.DeclareSort("Pair")))):
        a, b = z3.Const("sf.a" + tag, SS), z3.Const("sf.b" + tag, SS)
        i = z3.Int("sf.i" + tag)
        cat = z3.Concat(a, b)
        out.append(Schema("seq.nth_concat" + tag, [a, b, i], z3.And(
            z3.Implies(z3.And(i >= 0, i < z3.Length(a)), cat[i] == a[i]),
            z3.Implies(z3.And(i >= z3.Length(a), i < z3.Length(a) + z3.Length(b)), cat[i] == b[i - z3.Length(a)])),
            triggers=[[cat[i]]], origin="theory"))
    return out


@R.external("spec.ValidNet4")
def _unused(eng, args, kw, node):  # pragma: no cover
    raise Unsupported("n/a")


# ---------------------------------------------------------------- logging (ghost log)
def _log(level):
    def h(eng, args, kw, node):
        eng.st.log.append((level, args))
        return NoneV()
    return h


for _lv in ("debug", "info", "warning", "error", "critical"):
    R.ext["logging." + _lv] = _log(_lv)


# ---------------------------------------------------------------- E-resub (assumed contract of the re module)
def _pattern_lang(eng, pat):
    from pyvc import regex as rx
    try:
        return rx.Parsed(pat.pattern, pat.flags).body_re()
    except rx.RegexUnsupported:
        return None


@R.external("re.Pattern.sub")
def ext_pattern_sub(eng, args, kw, node):
    """p.sub(repl, s).  E-resub: scan left to right, call `repl` once per match (in order) with a match
    whose group(0) is in L(body of p); everything else is copied.  With a callable `repl` the call is a
    loop over an unknown number of matches: it needs an invariant (contract.loops['sub<k>'])."""
    eng.used_assumptions.add("E-resub")
    pat, repl, text = args[0], args[1], args[2]
    if isinstance(repl, Fun):
        return eng.resub_callable(pat.v, repl, text, node)
    # string template
    t = eng.term(repl, STR)
    ok = z3.Not(z3.Contains(t, zstr("\\")))
    if eng.may_catch("error"):
        if not eng.decide(ok):
            raise RaiseSig("error")
    else:
        eng.safety("re.sub template has no backslash", ok, node)
    r = z3.Const(eng.fresh_name("resub"), S)
    return P(STR, r)


@R.external("meth.match.group")
def match_group(eng, args, kw, node):
    m = args[0]
    g = args[1] if len(args) > 1 else Conc(0)
    if isinstance(g, Conc) and g.v == 0:
        return P(STR, m.text)
    key = g.v if isinstance(g, Conc) else None
    if key is None:
        raise Unsupported("symbolic group index")
    if key not in m.groups:
        m.groups[key] = OptV(z3.Bool(eng.fresh_name("grp.some")), P(STR, z3.Const(eng.fresh_name("grp"), S)))
    return m.groups[key]


def _membership(eng, pattern, flags, sterm, anchored_start):
    """condition under which re.search / re.match(pattern, s) succeeds, for assertion-free bodies with optional
    ^ ... $ / \\Z anchors ($ = end or before a final newline)"""
    from pyvc import regex as rx
    import re as _re
    P_ = rx.Parsed(pattern, flags)
    pre, body, post = P_.split_context()
    def only_at(items, names):
        return all(op is rx.sre_c.AT and str(av) in names for op, av in items)
    if not only_at(pre, ("AT_BEGINNING", "AT_BEGINNING_STRING")) or not only_at(post, ("AT_END", "AT_END_STRING")):
        raise rx.RegexUnsupported("look-around in membership test")
    lang = rx.to_re(body, P_.ic)
    start_anch = anchored_start or bool(pre)
    if not start_anch:
        lang = z3.Concat(rx.ALL, lang)
    if not post:
        lang = z3.Concat(lang, rx.ALL)
        return z3.InRe(sterm, lang)
    if any(str(av) == "AT_END" for _, av in post):
        return z3.Or(z3.InRe(sterm, lang), z3.InRe(sterm, z3.Concat(lang, z3.Re(zstr("\n")))))
    return z3.InRe(sterm, lang)


def _re_test(anchored):
    def h(eng, args, kw, node):
        eng.used_assumptions.add("E-resub")
        pat, s = args[0], args[1]
        if not isinstance(pat, Conc):
            raise Unsupported("re.search/match with a non-constant pattern")
        from pyvc import regex as rx
        st = eng.term(s, STR)
        try:
            cond = _membership(eng, pat.v, 0, st, anchored)
        except rx.RegexUnsupported:
            cond = z3.Bool(eng.fresh_name("re.opaque"))
        return OptV(cond, Special("match", text=st, groups={}))
    return h


R.ext["re.search"] = _re_test(False)
R.ext["re.match"] = _re_test(True)


def _re_flags(eng, args, kw, pos):
    f = args[pos] if len(args) > pos else kw.get("flags")
    if f is None:
        return 0
    if isinstance(f, Conc) and isinstance(f.v, int):
        return int(f.v)
    raise Unsupported("regex flags that are not a constant")


def _re_test_flags(anchored):
    """re.search / re.match with an optional constant `flags` argument"""
    base = _re_test(anchored)

    def h(eng, args, kw, node):
        flags = _re_flags(eng, args, kw, 2)
        if not flags:
            return base(eng, args[:2], {}, node)
        eng.used_assumptions.add("E-resub")
        pat, s = args[0], args[1]
        if not isinstance(pat, Conc):
            raise Unsupported("re.search/match with a non-constant pattern")
        from pyvc import regex as rx
        st = eng.term(s, STR)
        try:
            cond = _membership(eng, pat.v, flags, st, anchored)
        except rx.RegexUnsupported:
            cond = z3.Bool(eng.fresh_name("re.opaque"))
        return OptV(cond, Special("match", text=st, groups={}))
    return h


R.ext["re.search"] = _re_test_flags(False)
R.ext["re.match"] = _re_test_flags(True)


def _re_pattern_test(anchored):
    """compiled_pattern.search / .match where the pattern object is a module-level constant of the working tree"""
    def h(eng, args, kw, node):
        from pyvc.repo import RePattern
        from pyvc import regex as rx
        pat, s = args[0], args[1]
        if not (isinstance(pat, Conc) and isinstance(pat.v, RePattern)):
            raise Unsupported("search/match on a pattern object that is not a constant")
        if len(args) > 2 or kw:
            raise Unsupported("pos/endpos arguments of Pattern.search/match")
        eng.used_assumptions.add("E-resub")
        st = eng.term(s, STR)
        try:
            cond = _membership(eng, pat.v.pattern, pat.v.flags, st, anchored)
        except rx.RegexUnsupported:
            cond = z3.Bool(eng.fresh_name("re.opaque"))
        return OptV(cond, Special("match", text=st, groups={}))
    return h


R.ext["re.Pattern.search"] = _re_pattern_test(False)
R.ext["re.Pattern.match"] = _re_pattern_test(True)


# ---------------------------------------------------------------- E-strws (str whitespace methods)
lstrip_f = uf("py_lstrip", S, S)
lws_f = uf("py_lws", S, S)          # the leading whitespace removed by lstrip()
rstrip_f = uf("py_rstrip", S, S)
rws_f = uf("py_rws", S, S)
split_f = uf("py_split_ws", S, z3.SeqSort(S))
lower_f = uf("py_lower", S, S)
WS = z3.Union(*[z3.Re(zstr(c)) for c in " \t\n\r\x0b\x0c"])   # ASCII whitespace (unicode spaces: not modelled)


@R.axiom
def e_strws(eng):
    s = z3.Const("ws.s", S)
    return [
        Schema("E-strws.lstrip", [s], z3.And(
            s == z3.Concat(lws_f(s), lstrip_f(s)), z3.InRe(lws_f(s), z3.Star(WS)),
            z3.Not(z3.InRe(z3.SubString(lstrip_f(s), 0, 1), WS))), triggers=[[lstrip_f(s)]], origin="assumed"),
        Schema("E-strws.rstrip", [s], z3.And(
            s == z3.Concat(rstrip_f(s), rws_f(s)), z3.InRe(rws_f(s), z3.Star(WS)),
            z3.Not(z3.InRe(z3.SubString(rstrip_f(s), z3.Length(rstrip_f(s)) - 1, 1), WS))),
            triggers=[[rstrip_f(s)]], origin="assumed"),
        Schema("E-strws.lower", [s], z3.Length(lower_f(s)) == z3.Length(s), triggers=[[lower_f(s)]], origin="assumed"),
    ]


def _ws_method(fn):
    def h(eng, args, kw, node):
        if len(args) != 1:
            raise Unsupported("strip/split with arguments")
        eng.used_assumptions.add("E-strws")
        return P(STR, fn(eng.term(args[0], STR)))
    return h


R.ext["str.lstrip"] = _ws_method(lstrip_f)
R.ext["str.rstrip"] = _ws_method(rstrip_f)
R.ext["str.lower"] = _ws_method(lower_f)


@R.external("str.split")
def ext_split(eng, args, kw, node):
    eng.used_assumptions.add("E-strws")
    s = eng.term(args[0], STR)
    if len(args) == 1:
        return lib.alloc(eng, Ty("list", STR), P(SeqT(STR), split_f(s)), "cell.split")
    sep = args[1]
    if not isinstance(sep, Conc) or len(sep.v) != 1:
        raise Unsupported("split with a symbolic or multi-character separator")
    f = uf("py_split_" + str(ord(sep.v)), S, z3.SeqSort(S))
    r = f(s)
    # len(parts) == count(sep) + 1 >= 1 ; three separators in the text give at least four parts
    eng.st.pc.append(z3.Length(r) >= 1)
    three = z3.Concat(rx_all(), z3.Re(zstr(sep.v)), rx_all(), z3.Re(zstr(sep.v)), rx_all(), z3.Re(zstr(sep.v)), rx_all())
    eng.st.pc.append(z3.Implies(z3.InRe(s, three), z3.Length(r) >= 4))
    return lib.alloc(eng, Ty("list", STR), P(SeqT(STR), r), "cell.split")


def rx_all():
    from pyvc import regex as rx
    return rx.ALL


@R.external("str.join")
def ext_join(eng, args, kw, node):
    sep, it = args
    eng.used_assumptions.add("E-strws")
    sq = lib.seq_of(eng, it)
    if sq is None and _set_term(eng, it) is not None:
        # joining a set: the order of the pieces is the set's iteration order (depends on the hash seed)
        st_ = _set_term(eng, it)
        nd = z3.Const(eng.fresh_name("nondet.set_order"), z3.SeqSort(sort_of(st_.ty.args[0])))
        eng.nondet.append(("iteration order of a set (str.join over a set)", nd))
        sq = P(SeqT(st_.ty.args[0]), nd)
    if sq is None and isinstance(it, Special) and it.tag == "genexp":
        try:
            items = lib.iter_concrete(eng, it)
        except Unsupported:
            items = None
            sq = lib.seq_of(eng, lib.genexp_as_list(eng, it))
    if sq is None:
        try:
            items = lib.iter_concrete(eng, it)
        except Unsupported:
            items = None
        if items is not None:
            acc = None
            for x in items:
                acc = x if acc is None else lib.binop_add(eng, lib.binop_add(eng, acc, sep, node), x, node)
            return acc if acc is not None else Conc("")
        raise Unsupported("join over %r" % (it,))
    if not isinstance(sep, Conc):
        raise Unsupported("join with symbolic separator")
    f = uf("py_join_" + "_".join(str(ord(c)) for c in sep.v), z3.SeqSort(S), S)
    return P(STR, f(sq.term))


# ---------------------------------------------------------------- E-b2a_hex / E-passlib
hexenc = uf("hexenc", S, S)


@R.external("binascii.b2a_hex")
def ext_b2a_hex(eng, args, kw, node):
    eng.used_assumptions.add("E-b2a_hex")
    x = eng.term(args[0], STR)
    r = hexenc(x)
    eng.st.pc.append(z3.Length(r) == 2 * z3.Length(x))
    eng.st.pc.append(z3.InRe(r, z3.Star(HEXL)))
    return P(STR, r)


def _hasher(kind):
    def using(eng, args, kw, node):
        eng.used_assumptions.add("E-passlib")
        return Special("hasher", kind=kind, salt=kw.get("salt"), rounds=kw.get("rounds"))
    return using


for _k in ("cisco_type7", "md5_crypt", "sha512_crypt"):
    R.ext["passlib.hash.%s.using" % _k] = _hasher(_k)


LATIN1 = z3.Star(z3.Range(zstr(chr(0)), zstr(chr(255))))


def _ascii(eng, term):
    """passlib hash strings are ASCII (part of E-passlib)"""
    eng.st.pc.append(z3.InRe(term, LATIN1))
    return P(STR, term)


@R.external("meth.hasher.hash")
def ext_hash(eng, args, kw, node):
    h, secret = args[0], args[1]
    x = eng.term(secret, STR)
    if h.kind == "cisco_type7":
        salt = eng.term(h.salt, INT)
        eng.safety("passlib.cisco_type7[salt in 0..52]", z3.And(salt >= 0, salt <= 52), node)
        return _ascii(eng, uf("type7_hash", I, S, S)(salt, x))
    if h.kind == "md5_crypt":
        salt = eng.term(h.salt, STR)
        ok = z3.Length(salt) <= 8
        if eng.may_catch("ValueError"):
            if not eng.decide(ok):
                raise RaiseSig("ValueError")
        else:
            eng.safety("passlib.md5_crypt[salt length <= 8]", ok, node)
        return _ascii(eng, uf("md5crypt_hash", S, S, S)(salt, x))
    if h.kind == "sha512_crypt":
        if h.salt is None:
            # no salt given: passlib draws a random 16-character salt
            nd = z3.Const(eng.fresh_name("nondet.sha512_salt"), S)
            eng.nondet.append(("sha512_crypt random salt", nd))
            return _ascii(eng, uf("sha512crypt_hash", S, S, S)(nd, x))
        salt = eng.term(h.salt, STR)
        eng.safety("passlib.sha512_crypt[salt length <= 16]", z3.Length(salt) <= 16, node)
        return _ascii(eng, uf("sha512crypt_hash", S, S, S)(salt, x))
    raise Unsupported("hasher %s" % h.kind)


@R.axiom
def e_strrepeat(eng):
    c = z3.Const("sr.c", S)
    n = z3.Int("sr.n")
    f = uf("str_repeat", S, I, S)
    return [Schema("E-strrepeat.len", [c, n], z3.Length(f(c, n)) == z3.If(n < 0, 0, n * z3.Length(c)),
                   triggers=[[f(c, n)]], origin="assumed")]


# ---------------------------------------------------------------- nondeterministic sources / sets
@R.external("random.choice")
def ext_random_choice(eng, args, kw, node):
    c = z3.Const(eng.fresh_name("nondet.random"), S)
    eng.nondet.append(("random.choice", c))
    eng.st.pc.append(z3.Length(c) == 1)
    return P(STR, c)


SetS = z3.ArraySort(S, B)


@R.external("make_set")
def ext_make_set(eng, args, kw, node):
    src = args[0]
    c = lib.cell(eng, src) if not isinstance(src, list) else None
    if isinstance(src, list) and not src:
        # set(): element type not known yet
        return lib.alloc(eng, Ty("setcell", ANY), Special("emptyset"), "cell.set")
    if isinstance(c, Conc) and isinstance(c.v, (set, frozenset)) and len(c.v) > 50:
        # a large constant set (the built-in reserved words): opaque constant, named by its content
        import hashlib
        h = hashlib.sha1(repr(sorted(c.v)).encode()).hexdigest()[:8]
        return lib.alloc(eng, Ty("setcell", STR), P(SetT(STR), z3.Const("constset_" + h, SetS)), "cell.set")
    if isinstance(c, P) and c.ty.kind == "set":
        return lib.alloc(eng, Ty("setcell", STR), P(c.ty, c.term), "cell.set")     # copy
    sq = lib.seq_of(eng, src)
    if sq is not None:
        return lib.alloc(eng, Ty("setcell", STR), P(SetT(STR), _set_of_seq(eng, z3.K(S, z3.BoolVal(False)), sq.term)), "cell.set")
    raise Unsupported("set() of %r" % (c,))


def _set_of_seq(eng, base, seq):
    """base | set(seq) as a fresh array with its defining axiom"""
    new = z3.Const(eng.fresh_name("set.union"), SetS)
    x = z3.Const(eng.fresh_name("set.x"), S)
    eng.st.schemas.append(Schema("set.union", [x], z3.Select(new, x) == z3.Or(z3.Select(base, x), z3.Contains(seq, z3.Unit(x)))))
    return new


@R.external("cell.add")
def ext_set_add(eng, args, kw, node):
    recv, x = args
    c = eng.st.heap[recv.rid]
    if isinstance(c, Special) and c.tag == "anyset":
        return NoneV()
    if isinstance(x, Conc):
        x = P(eng.conc_type(x), eng.term(x))
    if not isinstance(x, P):
        raise Unsupported("set.add of %r" % (x,))
    if isinstance(c, Special) and c.tag == "emptyset":
        st_ = SetT(x.ty)
        eng.st.heap[recv.rid] = P(st_, z3.Store(z3.K(sort_of(x.ty), z3.BoolVal(False)), x.term, True))
        return NoneV()
    if isinstance(c, P) and c.ty.kind == "set":
        eng.st.heap[recv.rid] = P(c.ty, z3.Store(c.term, eng.term(x, c.ty.args[0]), True))
        return NoneV()
    raise Unsupported("add on %r" % (c,))


@R.external("cell.update")
def ext_set_update(eng, args, kw, node):
    recv, other = args
    c = eng.st.heap[recv.rid]
    if not (isinstance(c, P) and c.ty.kind == "set"):
        raise Unsupported("update on %r" % (c,))
    sq = lib.seq_of(eng, other)
    if sq is None:
        return NoneV()
    eng.st.heap[recv.rid] = P(c.ty, _set_of_seq(eng, c.term, sq.term))
    return NoneV()


# str.lstrip(chars) / rstrip(chars): E-strws - removes the longest prefix/suffix made of the given characters
def _strip_chars(side):
    def h(eng, args, kw, node):
        eng.used_assumptions.add("E-strws")
        recv, chars = args
        if not isinstance(chars, Conc) or not chars.v:
            raise Unsupported("strip with symbolic characters")
        s = eng.term(recv, STR)
        cls = z3.Union(*[z3.Re(zstr(c)) for c in sorted(set(chars.v))]) if len(set(chars.v)) > 1 else z3.Re(zstr(chars.v[0]))
        key = "_".join(str(ord(c)) for c in sorted(set(chars.v)))
        f = uf("py_%sstrip_%s" % (side, key), S, S)
        g = uf("py_%sstripped_%s" % (side, key), S, S)
        r, cut = f(s), g(s)
        if side == "l":
            eng.st.pc.append(z3.And(s == z3.Concat(cut, r), z3.InRe(cut, z3.Star(cls)),
                                    z3.Not(z3.InRe(z3.SubString(r, 0, 1), cls))))
        else:
            eng.st.pc.append(z3.And(s == z3.Concat(r, cut), z3.InRe(cut, z3.Star(cls)),
                                    z3.Not(z3.InRe(z3.SubString(r, z3.Length(r) - 1, 1), cls))))
        return P(STR, r)
    return h


_ws_l, _ws_r = R.ext["str.lstrip"], R.ext["str.rstrip"]
R.ext["str.lstrip"] = lambda eng, args, kw, node: _ws_l(eng, args, kw, node) if len(args) == 1 else _strip_chars("l")(eng, args, kw, node)
R.ext["str.rstrip"] = lambda eng, args, kw, node: _ws_r(eng, args, kw, node) if len(args) == 1 else _strip_chars("r")(eng, args, kw, node)


# ---------------------------------------------------------------- dict comprehension over a symbolic list, re.compile
@R.external("comprehension.dict")
def ext_dict_comprehension(eng, args, kw, node):
    """{k(x): v(x) for x in L}: fresh map m with  m[k(L[j])] == v(L[j])  for every j, and every key is some k(L[j])"""
    n, kind, it = args
    src = lib.seq_of(eng, it)
    g = n.generators[0]
    if src is None or g.ifs:
        raise Unsupported("dict comprehension over %r" % (it,))
    i = z3.Int(eng.fresh_name("dcomp.i"))
    ln = z3.Length(src.term)
    saved = dict(eng.st.vars)
    eng.guards.append(z3.And(i >= 0, i < ln))
    try:
        eng.assign(g.target, P(src.ty.args[0], src.term[i]))
        kv = eng.ev(n.key)
        vv = eng.ev(n.value)
    except RaiseSig:
        eng.st.pc.append(z3.And(i >= 0, i < ln))     # the element that raised exists
        raise
    finally:
        eng.guards.pop()
        eng.st.vars = saved
    if not (isinstance(kv, P) and isinstance(vv, (P, StrOfInt))):
        raise Unsupported("dict comprehension with non-primitive key/value")
    vt = vv.ty if isinstance(vv, P) else STR
    vterm = eng.term(vv, vt)
    m = eng.fresh_map(kv.ty, vt, "dcomp")
    j = z3.Int(eng.fresh_name("dcomp.j"))
    kj = z3.substitute(kv.term, (i, j))
    eng.st.schemas.append(Schema("dcomp.elem", [j], z3.Implies(z3.And(j >= 0, j < ln), z3.And(
        z3.Select(m.dom, kj), z3.Select(m.val, kj) == z3.substitute(vterm, (i, j))))))
    if kv.term.eq(src.term[i]):
        k = z3.Const(eng.fresh_name("dcomp.k"), sort_of(kv.ty))
        eng.st.schemas.append(Schema("dcomp.keys", [k], z3.Implies(z3.Select(m.dom, k), z3.Contains(src.term, z3.Unit(k)))))
    return lib.alloc(eng, MapT(kv.ty, vt), m, "cell.dcomp")


_list_comp = R.ext["comprehension"]
R.ext["comprehension"] = lambda eng, args, kw, node: ext_dict_comprehension(eng, args, kw, node) if args[1] == "dict" \
    else _list_comp(eng, args, kw, node)


@R.external("re.compile")
def ext_re_compile(eng, args, kw, node):
    eng.used_assumptions.add("E-resub")
    if isinstance(args[0], Conc):
        from pyvc.repo import RePattern
        fl = args[1].v if len(args) > 1 and isinstance(args[1], Conc) else 0
        return Conc(RePattern(args[0].v, int(fl)))
    flags = eng.term(args[1], INT) if len(args) > 1 else zint(0)
    return P(Opq("Pattern"), uf("re_compile", S, I, sort_of(Opq("Pattern")))(eng.term(args[0], STR), flags))


@R.external("meth.Pattern.sub")
def ext_opaque_pattern_sub(eng, args, kw, node):
    """sub on a pattern built at run time: loop cut by the invariant `sub<k>` of the enclosing contract; what is known
    about the match text comes from the loop contract's `match_assume` (an ASSUMED fact, listed as such)"""
    eng.used_assumptions.add("E-resub")
    pat, repl, text = args[0], args[1], args[2]
    if isinstance(repl, Fun):
        return eng.resub_callable(None, repl, text, node, pattern_val=pat)
    raise Unsupported("sub with a template on a run-time pattern")


# ---------------------------------------------------------------- sets: images, filters, union, emptiness; sorted()
def _set_term(eng, v):
    """array term of a set value (P set or set cell); None if not a set"""
    if isinstance(v, OptV):
        v = v.val
    c = lib.cell(eng, v)
    if isinstance(c, P) and c.ty.kind == "set":
        return c
    if isinstance(c, Conc) and isinstance(c.v, (set, frozenset)) and len(c.v) > 50:
        import hashlib
        h = hashlib.sha1(repr(sorted(c.v)).encode()).hexdigest()[:8]
        return P(SetT(STR), z3.Const("constset_" + h, SetS))
    return None


@R.external("comprehension.set")
def ext_set_comprehension(eng, args, kw, node):
    """{f(x) for x in S if c(x)} over a symbolic set or list: fresh set R with
         forall x. x in S /\\ c(x) => f(x) in R          (every image is in R)
         forall y. y in R => pre(y) in S /\\ c(pre(y)) /\\ f(pre(y)) == y     (nothing else; pre = skolem function)"""
    n, kind, it = args
    g = n.generators[0]
    st_ = _set_term(eng, it)
    sq = lib.seq_of(eng, it) if st_ is None else None
    if st_ is None and sq is None:
        raise Unsupported("set comprehension over %r" % (it,))
    et = st_.ty.args[0] if st_ is not None else sq.ty.args[0]
    x = z3.Const(eng.fresh_name("scomp.x"), sort_of(et))
    member = z3.Select(st_.term, x) if st_ is not None else z3.Contains(sq.term, z3.Unit(x))
    saved = dict(eng.st.vars)
    eng.guards.append(member)
    try:
        eng.assign(g.target, P(et, x))
        conds = [eng.truth(eng.ev(c)) for c in g.ifs]
        v = eng.ev(n.elt)
    finally:
        eng.guards.pop()
        eng.st.vars = saved
    if not isinstance(v, P):
        raise Unsupported("set comprehension element %r" % (v,))
    cond = z3.And(conds) if conds else z3.BoolVal(True)
    Rs = z3.Const(eng.fresh_name("scomp"), z3.ArraySort(sort_of(v.ty), z3.BoolSort()))
    pre = z3.Function(eng.fresh_name("scomp.pre"), sort_of(v.ty), sort_of(et))
    y = z3.Const(eng.fresh_name("scomp.y"), sort_of(v.ty))
    eng.st.schemas.append(Schema("scomp.image", [x], z3.Implies(z3.And(member, cond), z3.Select(Rs, v.term))))
    back = z3.substitute(z3.And(member, cond, v.term == y), (x, pre(y)))
    eng.st.schemas.append(Schema("scomp.only", [y], z3.Implies(z3.Select(Rs, y), back)))
    ty = Ty("setcell", v.ty)
    return lib.alloc(eng, ty, P(SetT(v.ty), Rs), "cell.scomp")


_comp2 = R.ext["comprehension"]
R.ext["comprehension"] = lambda eng, args, kw, node: ext_set_comprehension(eng, args, kw, node) if args[1] == "set" \
    else _comp2(eng, args, kw, node)
_make_set0 = R.ext["make_set"]


def _make_set(eng, args, kw, node):
    src = args[0]
    if isinstance(src, Ref) and src.ty.kind == "setcell":
        c = eng.st.heap[src.rid]
        if isinstance(c, P):
            return lib.alloc(eng, src.ty, P(c.ty, c.term), "cell.set")
    return _make_set0(eng, args, kw, node)


R.ext["make_set"] = _make_set
_upd0 = R.ext["cell.update"]


def _set_update(eng, args, kw, node):
    recv, other = args
    c = eng.st.heap[recv.rid]
    o = _set_term(eng, other)
    if o is not None:
        if isinstance(c, Special) and c.tag == "emptyset":
            eng.st.heap[recv.rid] = P(o.ty, o.term)
            return NoneV()
        if isinstance(c, P) and c.ty.kind == "set":
            new = z3.Const(eng.fresh_name("set.union"), c.term.sort())
            xx = z3.Const(eng.fresh_name("set.x"), sort_of(c.ty.args[0]))
            eng.st.schemas.append(Schema("set.union2", [xx], z3.Select(new, xx) == z3.Or(z3.Select(c.term, xx), z3.Select(o.term, xx))))
            eng.st.heap[recv.rid] = P(c.ty, new)
            return NoneV()
    return _upd0(eng, args, kw, node)


R.ext["cell.update"] = _set_update


@R.external("sorted")
def ext_sorted(eng, args, kw, node):
    """sorted(xs, key=...): a function of the *set* of elements iff the key is injective (its last component is the
    element itself, or there is no key); otherwise the result of sorting a set depends on iteration order."""
    src = args[0]
    key = kw.get("key")
    st_ = _set_term(eng, src)
    sq = lib.seq_of(eng, src) if st_ is None else None
    if st_ is None and sq is None:
        raise Unsupported("sorted of %r" % (src,))
    injective = key is None
    tag = "natural"
    if isinstance(key, Fun) and key.kind == "lambda":
        import ast as _ast
        body = key.node.body
        p0 = key.node.args.args[0].arg
        last = body.elts[-1] if isinstance(body, _ast.Tuple) and body.elts else body
        injective = isinstance(last, _ast.Name) and last.id == p0
        tag = _ast.unparse(body)
    et = (st_ or sq).ty.args[0]
    base = (st_ or sq).term
    import hashlib
    f = uf("sorted_" + hashlib.sha1(tag.encode()).hexdigest()[:6], base.sort(), z3.SeqSort(sort_of(et)))
    r = f(base)
    if st_ is not None and not injective:
        nd = z3.Const(eng.fresh_name("nondet.set_order"), z3.SeqSort(sort_of(et)))
        eng.nondet.append(("iteration order of a set (sorted with a non-injective key)", nd))
        r = nd
    x = z3.Const(eng.fresh_name("sorted.x"), sort_of(et))
    member = z3.Select(st_.term, x) if st_ is not None else z3.Contains(sq.term, z3.Unit(x))
    eng.st.schemas.append(Schema("sorted.same_elements", [x], z3.Contains(r, z3.Unit(x)) == member))
    return lib.alloc(eng, Ty("list", et), P(SeqT(et), r), "cell.sorted")


@R.external("re.escape")
def ext_re_escape(eng, args, kw, node):
    if isinstance(args[0], Conc):
        import re as _re
        return Conc(_re.escape(args[0].v))
    return P(STR, uf("re_escape", S, S)(eng.term(args[0], STR)))


@R.external("meth.Pattern.search")
def ext_opaque_pattern_search(eng, args, kw, node):
    eng.used_assumptions.add("E-resub")
    return OptV(z3.Bool(eng.fresh_name("search.found")), Special("match", text=z3.Const(eng.fresh_name("match.text"), S), groups={}))


# ---------------------------------------------------------------- the compiled secret regexes (opaque) and match objects
ReGroupS = sort_of(Opq("ReGroup"))
RePairS = sort_of(Opq("RePair"))
PatS = sort_of(Opq("Pattern"))


def _iter_regroup(eng, c, s):
    """a group of related (compiled regex, index of the secret group) pairs"""
    items = uf("regroup_items", ReGroupS, z3.SeqSort(RePairS))(c.term)
    return z3.Length(items), (lambda k: P(Opq("RePair"), items[k]))


R.iter_models["ReGroup"] = _iter_regroup


@R.external("unpack.RePair")
def _unpack_repair(eng, args, kw, node):
    p = args[0].term
    return [P(Opq("Pattern"), uf("repair_re", RePairS, PatS)(p)),
            OptV(uf("repair_has_num", RePairS, B)(p), P(INT, uf("repair_num", RePairS, I)(p)))]


@R.external("attr.Pattern.pattern")
def _pattern_text(eng, args, kw, node):
    return P(STR, uf("pattern_text", PatS, S)(args[0].term))


@R.external("meth.match.groupdict")
def _match_groupdict(eng, args, kw, node):
    return Special("groupdict", match=args[0])


_contains0 = lib.contains


def _contains(eng, cont, item, node):
    if isinstance(cont, Special) and cont.tag == "groupdict":
        m = cont.match
        key = item.v if isinstance(item, Conc) else None
        if key is None:
            raise Unsupported("symbolic group name")
        if ("has", key) not in m.groups:
            m.groups[("has", key)] = z3.Bool(eng.fresh_name("match.hasgroup"))
        return m.groups[("has", key)]
    return _contains0(eng, cont, item, node)


lib.contains = _contains


@R.external("meth.match.group")
def match_group2(eng, args, kw, node):
    """match.group(k).  E-regexgroups (ASSUMED): the `prefix` group and the secret group of netconan's line regexes
    take part in every match, so group() returns a string (never None) for them."""
    m = args[0]
    g = args[1] if len(args) > 1 else Conc(0)
    if isinstance(g, OptV):
        g = g.val
    if isinstance(g, Conc) and g.v == 0:
        return P(STR, m.text)
    eng.used_assumptions.add("E-regexgroups: the named group `prefix` and the secret group participate in every match")
    key = g.v if isinstance(g, Conc) else ("sym", g.term.get_id())
    if key not in m.groups:
        m.groups[key] = P(STR, z3.Const(eng.fresh_name("match.group"), S))
    return m.groups[key]


@R.external("meth.Pattern.sub")
def ext_opaque_pattern_sub2(eng, args, kw, node):
    eng.used_assumptions.add("E-resub")
    pat, repl, text = args[0], args[1], args[2]
    if isinstance(repl, Fun):
        return eng.resub_callable(None, repl, text, node, pattern_val=pat)
    t = eng.term(repl, STR)
    eng.safety("re.sub template has no backslash", z3.Not(z3.Contains(t, zstr("\\"))), node)
    return P(STR, z3.Const(eng.fresh_name("resub"), S))


# ---------------------------------------------------------------- E-os (paths, directory walk, open)
PairS = sort_of(Opq("Pair"))
mkpair = uf("mkpair", S, S, PairS)
pair_fst = uf("pair_fst", PairS, S)
pair_snd = uf("pair_snd", PairS, S)
WalkS = sort_of(Opq("WalkEntry"))


@R.axiom
def e_pairs(eng):
    a, b = z3.Const("pr.a", S), z3.Const("pr.b", S)
    return [Schema("pair.proj", [a, b], z3.And(pair_fst(mkpair(a, b)) == a, pair_snd(mkpair(a, b)) == b),
                   triggers=[[mkpair(a, b)]], origin="theory")]


@R.external("unpack.Pair")
def _unpack_pair(eng, args, kw, node):
    p = args[0].term
    return [P(STR, pair_fst(p)), P(STR, pair_snd(p))]


def _os_pred(name):
    def h(eng, args, kw, node):
        eng.used_assumptions.add("E-os")
        # file-system state can change between calls: each query is a fresh observation
        return P(BOOL, z3.Bool(eng.fresh_name("os." + name)))
    return h


for _n in ("exists", "isfile", "isdir", "samefile"):
    R.ext["os.path." + _n] = _os_pred(_n)


@R.external("os.listdir")
def _os_listdir(eng, args, kw, node):
    eng.used_assumptions.add("E-os")
    return lib.alloc(eng, Ty("list", STR), P(SeqT(STR), z3.Const(eng.fresh_name("os.listdir"), z3.SeqSort(S))), "cell.listdir")


def _os_strfun(name, arity):
    def h(eng, args, kw, node):
        eng.used_assumptions.add("E-os")
        ts = [eng.term(a, STR) for a in args]
        f = uf("os_%s_%d" % (name, len(ts)), *([S] * len(ts)), S)
        return P(STR, f(*ts))
    return h


R.ext["os.path.join"] = _os_strfun("join", None)
R.ext["os.path.relpath"] = _os_strfun("relpath", None)
R.ext["os.path.dirname"] = _os_strfun("dirname", None)


@R.external("os.makedirs")
def _os_makedirs(eng, args, kw, node):
    eng.used_assumptions.add("E-os")
    eng.st.calls.append(("os.makedirs", {"path": args[0]}))
    if eng.decide(z3.Bool(eng.fresh_name("os.makedirs.fails"))):
        raise RaiseSig("OSError")
    return NoneV()


@R.external("os.walk")
def _os_walk(eng, args, kw, node):
    eng.used_assumptions.add("E-os")
    return Special("oswalk", top=args[0], entries=z3.Const(eng.fresh_name("os.walk"), z3.SeqSort(WalkS)))


def _iter_walk(eng, c, s):
    def at(k):
        e = c.entries[k]
        return TupV([P(STR, uf("walk_root", WalkS, S)(e)),
                     lib.alloc(eng, Ty("list", STR), P(SeqT(STR), uf("walk_dirs", WalkS, z3.SeqSort(S))(e)), "cell.dirs"),
                     lib.alloc(eng, Ty("list", STR), P(SeqT(STR), uf("walk_files", WalkS, z3.SeqSort(S))(e)), "cell.files")])
    return z3.Length(c.entries), at


R.iter_models["oswalk"] = _iter_walk


@R.external("open")
def _open(eng, args, kw, node):
    """open(path, mode): may fail with OSError; the ghost call record keeps (path, mode)"""
    eng.used_assumptions.add("E-os")
    path = args[0]
    mode = args[1] if len(args) > 1 else kw.get("mode", Conc("r"))
    # any further option (buffering, encoding, errors, newline ...) changes what is read or written: recorded
    options = sorted(k for k in kw if k != "mode") + ["positional#%d" % i for i in range(2, len(args))]
    eng.st.calls.append(("open", {"path": path, "mode": mode, "options": Conc(tuple(options))}))
    if eng.decide(z3.Bool(eng.fresh_name("open.fails"))):
        raise RaiseSig("OSError")
    if isinstance(mode, Conc) and "w" in mode.v:
        return eng.fresh(ObjT("OutFile"), "file.w")
    return eng.fresh(ObjT("InFile"), "file.r")


@R.external("attr.exc.errno")
def _exc_errno(eng, args, kw, node):
    return P(INT, z3.Int(eng.fresh_name("errno")))


@R.external("errno.EEXIST")
def _eexist(eng, args, kw, node):
    return Conc(17)


@R.external("mkpair")
def _mkpair(eng, args, kw, node):
    return P(Opq("Pair"), mkpair(eng.term(args[0], STR), eng.term(args[1], STR)))


# "same relative path": Mirror(a, b, i, o) holds when a and b are the same non-hidden name under the same relative
# directory of i and of o.  Only the introduction rule is given (sound for the least such relation).
Mirror = uf("os_mirror", S, S, S, S, z3.BoolSort())


@R.axiom
def e_mirror(eng):
    i, o, r, f = [z3.Const("mr." + n, S) for n in "iorf"]
    j3 = uf("os_join_3", S, S, S, S)
    return [Schema("mirror.intro", [i, o, r, f],
                   z3.Implies(z3.Not(z3.PrefixOf(z3.StringVal("."), f)), Mirror(j3(i, r, f), j3(o, r, f), i, o)),
                   triggers=[[j3(i, r, f), j3(o, r, f)]], origin="theory")]


@spec_builtin("PairOK")
def _sp_pair_ok(eng, args, kw, n):
    """PairOK(p, i, o): the (input file, output file) pair p is (i, o) itself or a mirrored pair under i and o"""
    i, o = eng.term(args[1], STR), eng.term(args[2], STR)
    if isinstance(args[0], TupV):
        a, b = [eng.term(x, STR) for x in args[0].items]
    else:
        a, b = pair_fst(args[0].term), pair_snd(args[0].term)
    return P(BOOL, z3.Or(z3.And(a == i, b == o), Mirror(a, b, i, o)))


# ---------------------------------------------------------------- str.isalnum / isalpha / isdigit (E-strclass)
def _str_class(name, ascii_class):
    """Unicode-aware character-class predicates: exact on ASCII-only strings (non-empty and every character in the
    ASCII part of the class), uninterpreted on strings with a character above 127."""
    def h(eng, args, kw, node):
        eng.used_assumptions.add("E-strclass: str.%s is exact on ASCII strings and unspecified beyond" % name)
        t = eng.term(args[0], STR)
        f = uf("py_" + name, S, z3.BoolSort())
        ascii_all = z3.Star(z3.Range(zstr(chr(0)), zstr(chr(127))))
        cls = z3.Plus(z3.Union(*[z3.Range(zstr(a), zstr(b)) for a, b in ascii_class]))
        eng.st.pc.append(z3.Implies(z3.InRe(t, ascii_all), f(t) == z3.InRe(t, cls)))
        return P(BOOL, f(t))
    return h


R.ext["str.isalnum"] = _str_class("isalnum", [("0", "9"), ("A", "Z"), ("a", "z")])
R.ext["str.isalpha"] = _str_class("isalpha", [("A", "Z"), ("a", "z")])
R.ext["str.isdigit"] = _str_class("isdigit", [("0", "9"), ("0", "9")])


@R.external("cell.union")
def ext_set_union(eng, args, kw, node):
    """s.union(iterable): a NEW set (the receiver is not changed) holding the members of both"""
    recv, other = args
    c = eng.st.heap[recv.rid]
    if not (isinstance(c, P) and c.ty.kind == "set"):
        raise Unsupported("union on %r" % (c,))
    o = lib.cell(eng, other)
    if isinstance(o, P) and o.ty.kind == "set":
        new = z3.Const(eng.fresh_name("set.union"), c.term.sort())
        xx = z3.Const(eng.fresh_name("set.x"), S)
        eng.st.schemas.append(Schema("set.union2", [xx], z3.Select(new, xx) == z3.Or(z3.Select(c.term, xx), z3.Select(o.term, xx))))
        return lib.alloc(eng, Ty("setcell", STR), P(c.ty, new), "cell.set")
    sq = lib.seq_of(eng, other)
    if sq is None:
        return lib.alloc(eng, Ty("setcell", STR), P(c.ty, c.term), "cell.set")
    return lib.alloc(eng, Ty("setcell", STR), P(c.ty, _set_of_seq(eng, c.term, sq.term)), "cell.set")
