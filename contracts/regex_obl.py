"""Regular-language obligations generated from the REAL compiled patterns of the working tree
(IPv4_PATTERN, IPv6_PATTERN, the AS-number template, juniper VALID).  The reference languages are written
from the property statements / format definitions, not from the code's sub-patterns."""
import z3

from pyvc import regex as rx
from pyvc.engine import Unsupported

S = z3.StringSort()


def lit(x):
    return z3.Re(z3.StringVal(x))


def emit_empty(V, name, lang, meta=None):
    """obligation: the regular language `lang` is empty (a model is a witness string)"""
    w = z3.Const("w", S)
    m = {"kind": "regex", "z3_only": True, "no_q": True}
    m.update(meta or {})
    V.cur_func = name.split("#")[0]
    V.emit(name, z3.Not(z3.InRe(w, lang)), meta=m)


def emit_bool(V, name, ok, detail=""):
    m = {"kind": "regex-shape", "z3_only": True, "no_q": True, "detail": detail}
    V.cur_func = name.split("#")[0]
    V.emit(name, z3.BoolVal(bool(ok)), meta=m)


def subset(V, name, a, b):
    emit_empty(V, name, z3.Intersect(a, z3.Complement(b)))


# ---------------------------------------------------------------- reference languages
DIG = z3.Range("0", "9")
TOKEN4 = [[46, 46], [48, 57], [65, 90], [97, 122]]          # ASCII letters, digits and '.'
TOKEN6 = [[48, 58], [65, 90], [97, 122]]                     # ASCII letters, digits and ':'


def spec_octet():
    return z3.Union(z3.Concat(lit("25"), z3.Range("0", "5")), z3.Concat(lit("2"), z3.Range("0", "4"), DIG),
                    z3.Concat(lit("1"), DIG, DIG), z3.Concat(z3.Range("1", "9"), DIG), DIG)


def spec_v4(leading_zeros=True):
    part = z3.Concat(z3.Star(lit("0")), spec_octet()) if leading_zeros else spec_octet()
    return z3.Concat(part, lit("."), part, lit("."), part, lit("."), part)


def spec_hextet():
    return z3.Loop(z3.Union(DIG, z3.Range("a", "f"), z3.Range("A", "F")), 1, 4)


def spec_v6_pure():
    """RFC 4291 text forms without dotted tail / zone: 8 groups, or k + '::' + l groups with k + l <= 7."""
    h = spec_hextet()

    def groups(k):
        if k == 0:
            return rx.EPS
        if k == 1:
            return h
        return z3.Concat(h, z3.Loop(z3.Concat(lit(":"), h), k - 1, k - 1))
    alts = [groups(8)]
    for k in range(0, 8):
        for l in range(0, 8 - k):
            alts.append(z3.Concat(groups(k), lit("::"), groups(l)))
    return z3.Union(*alts)


def spec_v6_dotted():
    """IPv6 with an IPv4-style tail: 6 groups + dotted quad, or compressed with k + l <= 5 groups."""
    h = spec_hextet()
    quad = spec_v4(leading_zeros=False)

    def groups_then_colon(k):
        return z3.Loop(z3.Concat(h, lit(":")), k, k) if k else rx.EPS
    alts = [z3.Concat(groups_then_colon(6), quad)]
    for k in range(0, 6):
        for l in range(0, 6 - k):
            left = rx.EPS if k == 0 else z3.Concat(h, z3.Loop(z3.Concat(lit(":"), h), k - 1, k - 1))
            alts.append(z3.Concat(left, lit("::"), groups_then_colon(l), quad))
    return z3.Union(*alts)


def follow(C):
    """F = epsilon | (one character not in C) . Sigma*"""
    return z3.Union(rx.EPS, z3.Concat(rx.intervals_re(rx.complement_intervals(C)), rx.ALL))


# ---------------------------------------------------------------- generators
def gen_ipv4(V, repo):
    p = repo.const("netconan.ip_anonymization", "IPv4_PATTERN")
    P = rx.Parsed(p.pattern, p.flags)
    pre, body, post = P.split_context()
    emit_bool(V, "IPv4_PATTERN#context_pinned.before", rx.context_class(pre, -1) == TOKEN4,
              "look-behind must be: start of line or one character outside [A-Za-z0-9.]")
    emit_bool(V, "IPv4_PATTERN#context_pinned.after", rx.context_class(post, 1) == TOKEN4,
              "look-ahead must be: end of line or one character outside [A-Za-z0-9.] (optional look-aheads are no-ops)")
    L = rx.to_re(body, P.ic)
    Cstar = z3.Star(rx.intervals_re(TOKEN4))
    subset(V, "IPv4_PATTERN#body_within_token_alphabet", L, Cstar)
    subset(V, "IPv4_PATTERN#body_subset_of_spec", L, spec_v4())
    subset(V, "IPv4_PATTERN#spec_subset_of_body", spec_v4(), L)


def gen_ipv6(V, repo, findings=True):
    p = repo.const("netconan.ip_anonymization", "IPv6_PATTERN")
    P = rx.Parsed(p.pattern, p.flags)
    pre, body, post = P.split_context()
    emit_bool(V, "IPv6_PATTERN#context_pinned.before", rx.context_class(pre, -1) == TOKEN6,
              "look-behind must be: start of line or one character outside [A-Za-z0-9:]")
    emit_bool(V, "IPv6_PATTERN#context_pinned.after", rx.context_class(post, 1) == TOKEN6,
              "look-ahead must be: end of line or one character outside [A-Za-z0-9:]")
    alts = P.top_alternatives()
    Cstar = z3.Star(rx.intervals_re(TOKEN6))
    pure, impure = [], []
    for j, a in enumerate(alts):
        r, _ = rx.check_empty(z3.Intersect(a, z3.Complement(Cstar)), 20)
        (pure if r == "unsat" else impure).append((j, a))
    Lpure = z3.Union(*[a for _, a in pure]) if len(pure) > 1 else pure[0][1]
    subset(V, "IPv6_PATTERN#pure_alternatives_subset_of_spec", Lpure, spec_v6_pure())
    subset(V, "IPv6_PATTERN#spec_subset_of_pure_alternatives", spec_v6_pure(), Lpure)
    # a standalone token (maximal run over the token alphabet) that is a valid address is matched as a whole by a
    # pure alternative no matter which alternative fires first: an impure alternative (containing '.', '%') that
    # comes EARLIER than all pure ones could steal a prefix; require every impure alternative to come after one pure
    first_pure = min(j for j, _ in pure)
    emit_bool(V, "IPv6_PATTERN#impure_alternatives_come_last", all(j > first_pure for j, _ in impure),
              "alternatives containing characters outside the token alphabet must not precede the plain forms")
    # IPv4-style tail: an address with a dotted tail must be consumed as a whole.  The alternative that fires on
    # suffix w is the first j with w in L(alt_j).F ; for w in SpecDotted no alternative other than a dotted one may
    # fire on a proper prefix.
    F = follow(TOKEN6)
    dotted = spec_v6_dotted()
    stealing = [z3.Concat(a, z3.Concat(rx.intervals_re(rx.complement_intervals(TOKEN6)), rx.ALL)) for _, a in pure]
    emit_empty(V, "IPv6_PATTERN#dotted_tail_matched_as_a_whole",
               z3.Intersect(dotted, z3.Union(*stealing)) if len(stealing) > 1 else z3.Intersect(dotted, stealing[0]))


def gen_as_regex(V, repo):
    """template (?:(?<=\\D)|(?<=^))(n1|n2|...)(?=\\D|$) compiled for a generic digit-string hole"""
    import ast as _ast
    fi = repo.funcs["netconan.sensitive_item_removal:AsNumberAnonymizer._generate_as_number_regex"]
    tmpl = None
    for n in _ast.walk(fi.node):
        if isinstance(n, _ast.Constant) and isinstance(n.value, str) and "{}" in n.value:
            tmpl = n.value
    if tmpl is None:
        raise Unsupported("AS-number regex template not found")
    P = rx.Parsed(tmpl.format("64512|65000"), 0)
    pre, body, post = P.split_context()
    digits_iv = [list(x) for x in rx.category_intervals("digit")]
    emit_bool(V, "as_num_regex#context_pinned.before", rx.context_class(pre, -1) == digits_iv,
              "look-behind must be: start of line or one non-digit")
    emit_bool(V, "as_num_regex#context_pinned.after", rx.context_class(post, 1) == digits_iv,
              "look-ahead must be: end of line or one non-digit")
    L = rx.to_re(body, False)
    subset(V, "as_num_regex#body_is_the_listed_numbers", L, z3.Union(lit("64512"), lit("65000")))
    subset(V, "as_num_regex#listed_numbers_in_body", z3.Union(lit("64512"), lit("65000")), L)


def gen_juniper_valid(V, repo):
    pat = repo.const("netconan.utils.juniper_secrets", "VALID")
    from contracts.juniper import ALPHABET
    P = rx.Parsed(pat, 0)
    pre, body, post = P.split_context()
    names_pre = [str(av) for op, av in pre]
    names_post = [str(av) for op, av in post]
    emit_bool(V, "juniper.VALID#anchored_at_start", names_pre in (["AT_BEGINNING"], ["AT_BEGINNING_STRING"]), "")
    emit_bool(V, "juniper.VALID#anchored_at_very_end", names_post == ["AT_END_STRING"],
              "must end with \\Z: '$' also matches before a trailing newline")
    A = z3.Union(*[lit(c) for c in ALPHABET])
    spec = z3.Concat(lit("$9$"), z3.Loop(A, 4, 4), z3.Star(A))
    L = rx.to_re(body, False)
    subset(V, "juniper.VALID#language_subset_of_spec", L, spec)
    subset(V, "juniper.VALID#spec_subset_of_language", spec, L)


# ---------------------------------------------------------------- catch-all hash patterns (C07)
def gen_catchall(V, repo):
    """C07: "a standalone $1$ / $9$ hash-shaped token ... is replaced whatever keywords surround it".  The catch-all
    entries of extra_password_regexes must cover every hash-shaped token as a whole: the language of well-formed $9$
    strings (resp. md5-crypt strings) is included in the language of the entry's pattern, whose captured group is the
    whole match."""
    from contracts.juniper import ALPHABET
    table = repo.const("netconan.sensitive_item_removal", "extra_password_regexes")
    flat = [(p, g) for grp in table for (p, g) in grp]
    A = z3.Union(*[lit(c) for c in ALPHABET])
    B64 = z3.Union(z3.Range("0", "9"), z3.Range("a", "z"), z3.Range("A", "Z"), lit("."), lit("/"))
    specs = {"$9$": z3.Concat(lit("$9$"), z3.Loop(A, 4, 4), z3.Star(A)),
             "$1$": z3.Concat(lit("$1$"), z3.Loop(B64, 0, 8), lit("$"), z3.Loop(B64, 22, 22))}
    for magic, spec in specs.items():
        esc = magic.replace("$", "\\$")
        cands = [(p, g) for p, g in flat if esc in p and "(?<=" not in p]
        emit_bool(V, "catchall[%s]#present_with_group_1" % magic, len(cands) == 1 and cands[0][1] == 1,
                  "exactly one catch-all entry for %s tokens, capturing group 1" % magic)
        if len(cands) != 1:
            continue
        P = rx.Parsed(cands[0][0], 0)
        pre, body, post = P.split_context()
        emit_bool(V, "catchall[%s]#no_context_assertions" % magic, not pre and not post, "")
        L = rx.to_re(body, False)
        subset(V, "catchall[%s]#covers_every_hash_shaped_token" % magic, spec, L)
        # with an opening quote in front as well
        subset(V, "catchall[%s]#covers_quoted_token" % magic, z3.Concat(lit('"'), spec), L)
        # ... and never reaches beyond the token: a closing quote, a ';' terminator and white space end it (C08:
        # the same secret whatever the quoting and surrounding punctuation; C09: quotes and terminators kept in place)
        anyc = z3.Star(z3.Range(chr(0), chr(0x2FF)))
        stop = z3.Union(lit('"'), lit(";"), lit(" "), lit("\t"), lit("\n"))
        emit_empty(V, "catchall[%s]#stops_at_quote_terminator_and_space" % magic,
                   z3.Intersect(L, z3.Concat(z3.Range(chr(0), chr(0x2FF)), anyc, stop, anyc)))
