"""Contracts for AsNumberAnonymizer (netconan/sensitive_item_removal.py)."""
import z3
from pyvc.sym import *  # noqa
from pyvc.spec import LoopContract, SPEC_BUILTINS
from pyvc import lib
from . import R

M = "netconan.sensitive_item_removal:"

R.objtype("AsNum", pyclass=M + "AsNumberAnonymizer",
          fields={"salt": STR, "as_num_regex": Opq("Pattern"), "as_num_map": MapT(STR, STR)},
          ghost={"numbers": Ty("list", STR)})      # ghost: the listed AS numbers
AS = ObjT("AsNum")


def _sp_isnumeral(eng, args, kw, n):
    s = eng.term(args[0], STR)
    return P(BOOL, z3.And(z3.Length(s) > 0, z3.InRe(s, z3.Plus(z3.Range("0", "9")))))


def _sp_md5int(eng, args, kw, n):
    """Md5Int(s): int(md5(s).hexdigest(), 16) as an uninterpreted non-negative function of s (E-md5)"""
    from .externals import md5hex
    return P(INT, lib.uf("hex2int", lib.S, lib.I)(md5hex(eng.term(args[0], STR))))


SPEC_BUILTINS["IsNumeral"] = _sp_isnumeral
SPEC_BUILTINS["Md5Int"] = _sp_md5int

# the four AS blocks, limits copied from the property statement
R.specfn("Block", [("n", INT)], INT, "0 if n <= 64511 else (1 if n <= 65535 else (2 if n <= 4199999999 else 3))")
R.specfn("BlockBegin", [("n", INT)], INT, "0 if n <= 64511 else (64512 if n <= 65535 else (65536 if n <= 4199999999 else 4200000000))")
R.specfn("BlockSize", [("n", INT)], INT, "64512 if n <= 64511 else (1024 if n <= 65535 else (4199934464 if n <= 4199999999 else 94967296))")

R.contract(M + "AsNumberAnonymizer._generate_as_number_replacement",
           types={"self": AS, "as_number": STR}, returns=STR, pure=True, reads=["self.salt"],
           requires=["IsNumeral(as_number)"],
           raises={"ValueError": "int(as_number) > 4294967295"},
           ensures=["IsNumeral(result)",
                    "Block(int(result)) == Block(int(as_number))",
                    # keyed: a function of salt and number only
                    "int(result) == Md5Int(self.salt + as_number) % BlockSize(int(as_number)) + BlockBegin(int(as_number))"])

LSTR = Ty("list", STR)
# every listed number has a replacement in the map (so a match of the regex can always be looked up)
R.pred("AsOK", [("o", AS)], [
    ("total", "all(n in o.as_num_map for n in o.numbers)"),
    ("keyed", "all(o.as_num_map[n] == Repl(o.salt, n) for n in o.numbers)"),
])


def _sp_repl(eng, args, kw, n):
    """Repl(salt, number): the result of _generate_as_number_replacement as the pure function of (number, salt)"""
    f = lib.uf("pure_AsNumberAnonymizer._generate_as_number_replacement", lib.S, lib.S, lib.S)
    return P(STR, f(eng.term(args[1], STR), eng.term(args[0], STR)))


SPEC_BUILTINS["Repl"] = _sp_repl

R.contract(M + "AsNumberAnonymizer.__init__",
           types={"self": AS, "as_numbers": LSTR, "salt": STR},
           # valid option set: digit strings up to 4294967295
           requires=["all(IsNumeral(n) and int(n) <= 4294967295 for n in as_numbers)"],
           modifies=["self"],
           ghost_exit={"self.numbers": "as_numbers"},
           ensures=["self.salt == salt", "AsOK(self)", "seq(self.numbers) == seq(as_numbers)"])

R.contract(M + "AsNumberAnonymizer.anonymize",
           types={"self": AS, "as_number": STR}, returns=STR, pure=True, reads=["self.as_num_map"],
           raises={"KeyError": "as_number not in self.as_num_map"},
           ensures=["result == self.as_num_map[as_number]"])

R.contract(M + "anonymize_as_numbers", record=True,
           types={"anonymizer": AS, "line": STR}, returns=STR,
           requires=["AsOK(anonymizer)"],
           ensures=["True"],
           loops={"sub0": LoopContract([], invariant=["AsOK(anonymizer)"],
                                       # C11: every matched number is replaced by its own replacement, a function of
                                       # salt and number only
                                       step_ensures=["REPL == Repl(anonymizer.salt, MATCH)"],
                                       # ASSUMED: a match of the compiled template is one of the listed numbers (the
                                       # regular-language obligations as_num_regex#* decide this for the template)
                                       match_assume=["any(n == MATCH for n in anonymizer.numbers)"])})
