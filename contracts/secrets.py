"""Contracts for netconan/sensitive_item_removal.py: secret values, enclosing text, line splitting, words."""
import z3
from pyvc.sym import *  # noqa
from pyvc.spec import LoopContract, SPEC_BUILTINS, _sp_uf_fun, _sp_uf_pred
from pyvc import lib
from . import R
from .externals import _membership, lstrip_f, rstrip_f, lws_f, rws_f, split_f

M = "netconan.sensitive_item_removal:"
SI = "netconan.sensitive_item_removal"


def _sp_matches(eng, args, kw, n):
    """Matches(pattern, s): re.match(pattern, s) succeeds ('$' = end or before a final newline)"""
    pat, s = args
    return P(BOOL, _membership(eng, pat.v, 0, eng.term(s, STR), True))


SPEC_BUILTINS["Matches"] = _sp_matches
SPEC_BUILTINS["lstrip"] = _sp_uf_fun("py_lstrip", STR, STR)
SPEC_BUILTINS["rstrip"] = _sp_uf_fun("py_rstrip", STR, STR)
SPEC_BUILTINS["lws"] = _sp_uf_fun("py_lws", STR, STR)
SPEC_BUILTINS["rws"] = _sp_uf_fun("py_rws", STR, STR)

# format classes of the statement (C09), by priority: all-digit > type 7 > hexadecimal > $1$ > $6$ > $9$ > text
# enum values: cisco_type7=1 numeric=2 hexadecimal=3 md5=4 text=5 sha512=6 juniper_type9=7
R.specfn("FmtSpec", [("v", STR)], INT,
         "2 if Matches('^[0-9]+$', v) else ("
         "1 if Matches('^[01][0-9]([0-9a-fA-F][0-9a-fA-F])+$', v) else ("
         "3 if Matches('^[0-9a-fA-F]+$', v) else ("
         "4 if Matches('^\\\\$1\\\\$\\\\S+\\\\$\\\\S+$', v) else ("
         "6 if Matches('^\\\\$6\\\\$\\\\S+$', v) else ("
         "7 if Matches('^\\\\$9\\\\$\\\\S+$', v) else 5)))))")

R.contract(M + "_check_sensitive_item_format",
           types={"val": STR}, returns=INT, pure=True,
           ensures=["result == FmtSpec(val)"])

HEADS = ["\\'", '\\"', "'", '"', " ", "[", "{"]
TAILS = ["\\'", '\\"', "'", '"', " ", "]", "}", ";", ","]
R.spec_consts["ENCL_HEADS"] = HEADS
R.spec_consts["ENCL_TAILS"] = TAILS
R.pred("Stripped", [("v", STR)], [
    ("heads", "all(not v.startswith(h) for h in ENCL_HEADS)"),
    ("tails", "all(not v.endswith(t) for t in ENCL_TAILS)"),
])

R.contract(M + "_extract_enclosing_text",
           types={"in_val": STR, "head": STR, "tail": STR}, returns=Tup(STR, STR, STR), pure=True,
           ensures=[
               # conservation: nothing is lost or invented, only moved from the value to head / tail
               "result[0] + result[1] + result[2] == head + in_val + tail",
               "result[0][:len(head)] == head",
               "result[2][len(result[2]) - len(tail):] == tail",
               "len(result[1]) <= len(in_val)",
               # the value returned has no allowed enclosing text left (so the lookup key does not depend on quoting)
               "Stripped(result[1])",
           ],
           loops={0: LoopContract([], invariant=[
               "head + val + tail == entry_head + entry_in_val + entry_tail",
               "head[:len(entry_head)] == entry_head",
               "tail[len(tail) - len(entry_tail):] == entry_tail",
               "len(val) <= len(entry_in_val)",
               "implies(not changed, Stripped(val))",
           ], decreases="2 * len(val) + (1 if changed else 0)",
               stepwise=["head + val + tail", "tail[len(tail) - len(entry_tail):]", "head[:len(entry_head)]"],
               stepwise_for=["0", "1", "2"], stepwise_ctx=[1, 2])})

R.contract(M + "_split_line",
           types={"line": STR}, returns=Tup(STR, Ty("list", STR), STR), pure=True,
           ensures=["implies(len(lstrip(line)) > 0, result[0] == lws(line))",
                    "implies(len(lstrip(line)) == 0, result[0] == '')",
                    "result[2] == rws(line)"])

def _sp_latin1(eng, args, kw, n):
    from .externals import LATIN1
    return P(BOOL, z3.InRe(eng.term(args[0], STR), LATIN1))


SPEC_BUILTINS["Latin1"] = _sp_latin1
# every stored replacement is a pseudonym over code points 0..255 (needed to re-encrypt it as $9$)
R.pred("LookupOK", [("m", ANY)], [("latin1", "all(Latin1(m[k]) for k in m)")])

def _uf_builtin(name, ufname, ret, *sorts):
    SPEC_BUILTINS[name] = _sp_uf_fun(ufname, ret, *sorts)


_uf_builtin("HexEnc", "hexenc", STR, STR)
_uf_builtin("Hex2Int", "hex2int", INT, STR)
_uf_builtin("Type7", "type7_hash", STR, INT, STR)
_uf_builtin("Md5Crypt", "md5crypt_hash", STR, STR, STR)
_uf_builtin("Sha512Crypt", "sha512crypt_hash", STR, STR, STR)
_uf_builtin("Repeat", "str_repeat", STR, STR, INT)
_uf_builtin("SplitDollar", "py_split_36", SeqT(STR), STR)


def _sp_jenc(eng, args, kw, n):
    """JEnc(plain, salt): juniper_nonrandom_encrypt(plain, salt) as the pure function of its arguments"""
    plain, salt = args
    some = salt.some if isinstance(salt, OptV) else z3.BoolVal(True)
    sv = salt.val.term if isinstance(salt, OptV) else eng.term(salt, STR)
    f = lib.uf("pure_juniper_nonrandom_encrypt", lib.S, lib.B, lib.S, lib.S)
    return P(STR, f(eng.term(plain, STR), some, z3.If(some, sv, z3.StringVal(""))))


SPEC_BUILTINS["JEnc"] = _sp_jenc

LOOKUP = MapT(STR, STR)
EET0 = "_extract_enclosing_text(raw_val, '', '')"
SKIP = "(%s[1] in reserved_words or %s[1] == '')" % (EET0, EET0)

NEWPLAIN = "(not %s and %s[1] not in old(lookup) and not J9Decodable(%s[1]))" % (SKIP, EET0, EET0)
BASE = "('netconanRemoved' + str(size(old(lookup))))"

R.contract(M + "_anonymize_value",
           types={"raw_val": STR, "lookup": LOOKUP, "reserved_words": SetT(STR), "salt": Opt(STR)}, returns=STR,
           modifies=["lookup", "log"], prune=True, max_paths=3000, record=True,
           ensures=[
               # reserved words and empty values are returned exactly as written, nothing is recorded
               "implies(%s, result == raw_val and size(lookup) == size(old(lookup)))" % SKIP,
               # enclosing text (quotes, brackets, terminators) stays in place around the replacement
               "result[:len(%s[0])] == %s[0]" % (EET0, EET0),
               "result[len(result) - len(%s[2]):] == %s[2]" % (EET0, EET0),
               # consistency: a value seen before gets the stored replacement and the lookup is not touched
               "implies(not %s and %s[1] in old(lookup), "
               "result == %s[0] + old(lookup)[%s[1]] + %s[2] and size(lookup) == size(old(lookup)))" % (SKIP, EET0, EET0, EET0, EET0),
               # entries are never removed or changed
               "all(k in lookup and lookup[k] == old(lookup)[k] for k in old(lookup))",
               # a new secret adds exactly one entry
               "size(lookup) <= size(old(lookup)) + 1",
               # every processed secret is recorded (under the value itself, or under its plaintext for $9$ strings),
               # and the result carries the recorded replacement: later occurrences get the same one
               "implies(not %s and not J9Decodable(%s[1]), %s[1] in lookup and result == %s[0] + lookup[%s[1]] + %s[2])"
               % (SKIP, EET0, EET0, EET0, EET0, EET0),
               "implies(not %s and J9Decodable(%s[1]) and J9Dec(%s[1]) != '' and %s[1] not in old(lookup), "
               "J9Dec(%s[1]) in lookup)" % (SKIP, EET0, EET0, EET0, EET0),
           ] + [
               # the replacement recorded for a NEW secret is this explicit function of the number of secrets seen so
               # far, the format class of the value and (for $1$) the length of its salt field - of nothing else (C07, C09)
               "implies(%s and FmtSpec(%s[1]) == %d, lookup[%s[1]] == %s)" % (NEWPLAIN, EET0, code, EET0, expr)
               for code, expr in (
                   (5, BASE),
                   (2, "str(Hex2Int(HexEnc(%s)))" % BASE),
                   (3, "HexEnc(%s)" % BASE),
                   (1, "Type7(9, %s)" % BASE),
                   (4, "Md5Crypt(Repeat('0', min(len(SplitDollar(%s[1])[2]), 8)), %s)" % (EET0, BASE)),
                   (6, "Sha512Crypt('0000000000000000', %s)" % BASE),
                   (7, "JEnc(%s, salt)" % BASE),
               )
           ] + [
           ])


R.contract(M + "replace_matching_item", record=True,
           types={"compiled_regexes": Ty("list", Opq("ReGroup")), "input_line": STR, "pwd_lookup": LOOKUP,
                  "salt": Opt(STR), "reserved_words": SetT(STR)}, returns=STR,
           modifies=["pwd_lookup", "log"],
           ensures=[
               # the line keeps its own leading and trailing whitespace (incl. the line terminator) (C12)
               "implies(len(lstrip(input_line)) > 0, result[:len(lws(input_line))] == lws(input_line))",
               "result[len(result) - len(rws(input_line)):] == rws(input_line)",
               # secrets recorded earlier are never forgotten or changed (C08)
               "all(k in pwd_lookup and pwd_lookup[k] == old(pwd_lookup)[k] for k in old(pwd_lookup))",
           ],
           loops={0: LoopContract(["compiled_regex_grp"], index="_i0", heap_modifies=["pwd_lookup"], invariant=[
                      "all(k in pwd_lookup and pwd_lookup[k] == old(pwd_lookup)[k] for k in old(pwd_lookup))"]),
                  1: LoopContract(["compiled_re", "sensitive_item_num"], index="_i1", heap_modifies=["pwd_lookup"], invariant=[
                      "all(k in pwd_lookup and pwd_lookup[k] == old(pwd_lookup)[k] for k in old(pwd_lookup))"]),
                  # every match of a line regex on the line is replaced by (its own kept prefix +) the anonymization of
                  # ITS OWN secret group - from the statement of C07/C08: each secret is replaced, equal secrets by
                  # equal and different secrets by different replacements
                  "sub1": LoopContract([], heap_modifies=["pwd_lookup"], invariant=[
                      "all(k in pwd_lookup and pwd_lookup[k] == old(pwd_lookup)[k] for k in old(pwd_lookup))"],
                      step_ensures=["OwnSecretAnonymized(REPL)"])})


def _same(eng, a, b):
    try:
        if isinstance(a, OptV):
            a = a.val
        if isinstance(b, OptV):
            b = b.val
        if isinstance(a, Ref) and isinstance(b, Ref):
            return a.rid == b.rid
        return eng.term(a).eq(eng.term(b))
    except Exception:
        return False


def _sp_own_secret(eng, args, kw, n):
    """OwnSecretAnonymized(REPL): in this iteration of the substitution loop _anonymize_value was called exactly
    once, on a group of the current match, with the run's lookup/salt/reserved words, and the text returned for the
    match is that call's result, preceded by the match's own `prefix` group when the pattern has one"""
    import z3 as _z3
    from pyvc.lib import S as _S
    calls = [e for k, e in eng.st.calls if k.endswith(":_anonymize_value")]
    m = getattr(eng, "cur_match", None)
    if m is None or len(calls) != 1:
        return Conc(False)
    e = calls[0]
    groups = [v for k, v in m.groups.items() if isinstance(v, P)]
    val = eng.term(e["raw_val"], STR)
    if not any(val.eq(g.term) for g in groups):
        return Conc(False)
    outer = eng.st.vars
    for pn, vn in (("lookup", "pwd_lookup"), ("salt", "salt"), ("reserved_words", "reserved_words")):
        if vn in outer and not _same(eng, e[pn], outer[vn]):
            return Conc(False)
    res = eng.term(e["result"], STR)
    has = m.groups.get(("has", "prefix"))
    pg = m.groups.get("prefix")
    if has is None or pg is None:
        prefix = _z3.StringVal("")
    else:
        prefix = _z3.If(has, pg.term, _z3.StringVal(""))
    if any(val.eq(g.term) for g in [pg] if g is not None):
        return Conc(False)                       # the kept prefix itself must not be what is anonymized
    return P(BOOL, eng.term(args[0], STR) == _z3.Concat(prefix, res))


SPEC_BUILTINS["OwnSecretAnonymized"] = _sp_own_secret
