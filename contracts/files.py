"""Contracts for netconan/anonymize_files.py: FileAnonymizer and the per-line pipeline."""
import z3
from pyvc.sym import *  # noqa
from pyvc.spec import LoopContract, SPEC_BUILTINS
from pyvc.engine import Unsupported
from pyvc import lib
from . import R
from .ip_core import O4, OUT

M = "netconan.anonymize_files:"
MS = "netconan.sensitive_item_removal:"
LS = Ty("list", STR)

R.objtype("WordAnon", pyclass=MS + "SensitiveWordAnonymizer",
          fields={"reserved_words": Ty("setcell", STR), "salt": STR, "sens_regex": Opq("Pattern"),
                  "sens_word_replacements": MapT(STR, STR), "conflicting_words": Ty("setcell", STR)},
          ghost={"words": Ty("list", STR), "reserved_src": SetT(STR)})
R.objtype("FileAnon", pyclass=M + "FileAnonymizer",
          fields={"undo_ip_anon": BOOL, "anonymizer4": Opt(O4), "anonymizer6": Opt(ObjT("Ip6")),
                  "anonymizer_as_num": Opt(ObjT("AsNum")), "anonymizer_sensitive_word": Opt(ObjT("WordAnon")),
                  "compiled_regexes": Opt(Ty("list", Opq("ReGroup"))), "pwd_lookup": Opt(MapT(STR, STR)), "salt": Opt(STR),
                  "reserved_words": Ty("setcell", STR)})
FA = ObjT("FileAnon")

# constructors of the word / AS-number anonymizers as seen from FileAnonymizer (trusted: their regex construction
# is library behaviour); what matters here is WHICH configuration each stage receives
WA = ObjT("WordAnon")
SPEC_BUILTINS["lower"] = __import__("pyvc.spec", fromlist=["_sp_uf_fun"])._sp_uf_fun("py_lower", STR, STR)


def _sp_md5hex(eng, args, kw, n):
    from .externals import md5hex
    return P(STR, md5hex(eng.term(args[0], STR)))


SPEC_BUILTINS["Md5Hex"] = _sp_md5hex
# the pseudonym of a matched word: a function of salt and matched text only (C10)
R.specfn("WordRepl", [("salt", STR), ("w", STR)], STR, "Md5Hex(salt + w)[:6]")
R.pred("MemoOK", [("o", WA)], [
    ("memo", "all(o.sens_word_replacements[k] == WordRepl(o.salt, k) for k in o.sens_word_replacements)"),
])
# which reserved words are protected from word anonymization
R.pred("ConflictOK", [("o", WA)], [
    ("subset", "all(implies(w in o.conflicting_words, w in o.reserved_words) for w in Str)"),
    ("complete", "all(all(implies(has(o.words, s) and w in o.reserved_words and (lower(s) in w), "
                 "w in o.conflicting_words) for w in Str) for s in Str)"),
])

R.contract(MS + "SensitiveWordAnonymizer._get_or_generate_sensitive_word_replacement",
           types={"self": WA, "sensitive_word": STR}, returns=STR,
           requires=["MemoOK(self)"], modifies=["self.sens_word_replacements"],
           ensures=["result == WordRepl(self.salt, sensitive_word)", "MemoOK(self)",
                    "Extends(old(self.sens_word_replacements), self.sens_word_replacements)"])

SC = Ty("setcell", STR)
R.contract(MS + "SensitiveWordAnonymizer._generate_conflicting_reserved_word_list",
           types={"self": WA, "sensitive_words": SC}, returns=SC, modifies=["log"],
           ensures=["all(implies(w in result, w in self.reserved_words) for w in Str)",
                    "all(all(implies(s in sensitive_words and w in self.reserved_words and (s in w), w in result) "
                    "for w in Str) for s in Str)"],
           loops={0: LoopContract(["sensitive_word"], index="_i0", cell_types={"conflicting_words": STR}, invariant=[
               "all(implies(w in conflicting_words, w in self.reserved_words) for w in Str)",
               "all(all(implies(j < _i0 and w in self.reserved_words and (ENUM[j] in w), w in conflicting_words) "
               "for w in Str) for j in range(_n))"])})

R.contract(MS + "SensitiveWordAnonymizer._generate_sensitive_word_regex",
           types={"cls": Ty("cls", "netconan.sensitive_item_removal", "SensitiveWordAnonymizer"), "sensitive_words": SC},
           returns=Opq("Pattern"), ensures=["True"])

R.contract(MS + "SensitiveWordAnonymizer.__init__",
           types={"self": WA, "sensitive_words": LS, "salt": STR, "reserved_words": SetT(STR)},
           modifies=["self", "log"],
           ghost_exit={"self.words": "sensitive_words", "self.reserved_src": "reserved_words"},
           ensures=["self.salt == salt", "seq(self.words) == seq(sensitive_words)",
                    "all(iff(w in self.reserved_src, w in reserved_words) for w in Str)",
                    # reserved words are kept in lower case
                    "all(implies(w in reserved_words, lower(w) in self.reserved_words) for w in Str)",
                    "MemoOK(self)", "ConflictOK(self)"])
R.contract(MS + "generate_default_sensitive_item_regexes", trusted=True, types={}, returns=Ty("list", Opq("ReGroup")),
           ensures=["True"])


def _sp_logged(eng, args, kw, n):
    """logged(level, value): the ghost log has a record at `level` with `value` among its arguments"""
    level, val = args[0].v, args[1]
    t = eng.term(val)
    for lv, a in eng.st.log:
        if lv == level:
            for x in a:
                try:
                    if eng.term(x).eq(t):
                        return Conc(True)
                except Unsupported:
                    pass
    return Conc(False)


SPEC_BUILTINS["logged"] = _sp_logged
IPON = "(anon_ip or undo_ip_anon)"

R.contract(M + "FileAnonymizer.__init__",
           types={"self": FA, "anon_pwd": BOOL, "anon_ip": BOOL, "salt": Opt(STR), "sensitive_words": Opt(LS),
                  "undo_ip_anon": BOOL, "as_numbers": Opt(LS), "reserved_words": Opt(LS), "preserve_prefixes": Opt(LS),
                  "preserve_networks": Opt(LS), "preserve_suffix_v4": Opt(INT), "preserve_suffix_v6": Opt(INT)},
           # valid option set (the quantifier of the properties)
           requires=["implies(preserve_suffix_v4 is not None, 0 <= preserve_suffix_v4 and preserve_suffix_v4 <= 32)",
                     "implies(preserve_suffix_v6 is not None, 0 <= preserve_suffix_v6 and preserve_suffix_v6 <= 128)",
                     "implies(preserve_prefixes is not None, all(ValidNet4(p) for p in preserve_prefixes))",
                     "implies(preserve_networks is not None, all(ValidNet4(p) for p in preserve_networks))",
                     "implies(as_numbers is not None, all(IsNumeral(n) and int(n) <= 4294967295 for n in as_numbers))"],
           modifies=["self", "log"],
           nondet_ok="salt is None",
           ensures=[
               "self.undo_ip_anon == undo_ip_anon",
               "self.salt is not None",
               "implies(salt is not None, self.salt == salt)",
               # no salt: the generated salt is reported at WARNING and is the one every stage uses
               "implies(salt is None, logged('warning', self.salt))",
               # each stage is configured from its own options only (C15) and with the same salt (C13)
               "(self.pwd_lookup is not None) == anon_pwd", "(self.compiled_regexes is not None) == anon_pwd",
               "implies(anon_pwd, size(self.pwd_lookup) == 0)",
               "(self.anonymizer4 is not None) == %s" % IPON, "(self.anonymizer6 is not None) == %s" % IPON,
               "implies(%s, WF(self.anonymizer4) and WF(self.anonymizer6))" % IPON,
               "implies(%s, self.anonymizer4.salt == self.salt and self.anonymizer6.salt == self.salt)" % IPON,
               "implies(%s, self.anonymizer4.length == 32 and self.anonymizer6.length == 128)" % IPON,
               "implies(%s, self.anonymizer4.preserve_suffix == (0 if preserve_suffix_v4 is None else preserve_suffix_v4))" % IPON,
               "implies(%s, self.anonymizer6.preserve_suffix == (0 if preserve_suffix_v6 is None else preserve_suffix_v6))" % IPON,
               "(self.anonymizer_sensitive_word is not None) == (sensitive_words is not None)",
               "implies(sensitive_words is not None, self.anonymizer_sensitive_word.salt == self.salt and "
               "seq(self.anonymizer_sensitive_word.words) == seq(sensitive_words) and "
               "MemoOK(self.anonymizer_sensitive_word) and ConflictOK(self.anonymizer_sensitive_word))",
               # the word stage gets built-in + user reserved words (C10)
               "implies(sensitive_words is not None, all(iff(w in self.anonymizer_sensitive_word.reserved_src, "
               "w in self.reserved_words) for w in Str))",
               "implies(reserved_words is not None, all(w in self.reserved_words for w in reserved_words))",
               "(self.anonymizer_as_num is not None) == (as_numbers is not None)",
               "implies(as_numbers is not None, self.anonymizer_as_num.salt == self.salt and "
               "AsOK(self.anonymizer_as_num) and seq(self.anonymizer_as_num.numbers) == seq(as_numbers))",
           ])


# ---------------------------------------------------------------- the per-line pipeline (C12, C15)
def _in_readlines(eng, args, kw, node):
    """file.readlines(): E-os - returns all lines in order, or raises before returning anything"""
    f = args[0]
    from pyvc.engine import RaiseSig
    if eng.may_catch("UnicodeDecodeError") or "Exception" in eng.allowed_raises:
        if eng.decide(z3.Bool(eng.fresh_name("readlines.fails"))):
            raise RaiseSig("UnicodeDecodeError")
    return eng.st.heap[f.rid].fields["lines"]


R.objtype("InFile", fields={"lines": Ty("list", STR)}, ext_methods={"readlines": _in_readlines})
IN = ObjT("InFile")

from .ip_core import _out_write as _ow   # noqa: E402


def _out_write_rec(eng, args, kw, node):
    eng.st.calls.append(("write", {"value": args[1]}))
    return _ow(eng, args, kw, node)


R.objtypes["OutFile"].ext_methods["write"] = _out_write_rec

R.contract(MS + "SensitiveWordAnonymizer.anonymize", record=True,
           types={"self": ObjT("WordAnon"), "line": STR}, returns=STR, modifies=["self.sens_word_replacements"],
           requires=["MemoOK(self)"],
           ensures=["MemoOK(self)",
                    # the line is returned as is, or rebuilt between its own leading and trailing whitespace (C12)
                    "result == line or (result[:len(_split_line(line)[0])] == _split_line(line)[0] and "
                    "result[len(result) - len(_split_line(line)[2]):] == _split_line(line)[2])"],
           loops={"sub0": LoopContract([], heap_modifies=["self.sens_word_replacements"], invariant=["MemoOK(self)"],
                                       # C10: each occurrence is replaced by the pseudonym determined by the salt and
                                       # the matched text only
                                       step_ensures=["REPL == WordRepl(self.salt, MATCH)"])})
for _k in ("netconan.ip_anonymization:anonymize_ip_addr@v4", "netconan.ip_anonymization:anonymize_ip_addr@v6"):
    R.contracts[_k].record = True

STAGES = [("replace_matching_item", "input_line"), ("anonymize_ip_addr@v6", "line"), ("anonymize_ip_addr@v4", "line"),
          ("SensitiveWordAnonymizer.anonymize", "line"), ("anonymize_as_numbers", "line")]


def _same(eng, a, b):
    try:
        if isinstance(a, Ref) and isinstance(b, Ref):
            return a.rid == b.rid
        if isinstance(a, OptV):
            a = a.val
        if isinstance(b, OptV):
            b = b.val
        if isinstance(a, Ref) and isinstance(b, Ref):
            return a.rid == b.rid
        return eng.term(a).eq(eng.term(b))
    except Exception:
        return False


def _sp_pipeline_ok(eng, args, kw, n):
    """PipelineOK(self, line): ghost trace check of one loop iteration of anonymize_io -
    the stages run in the fixed order secrets, IPv6, IPv4, words, AS numbers; each present stage exactly once and
    each absent stage not at all; every stage gets the previous stage's result (the input line first) and its own
    configuration; exactly one write, of the last result."""
    me, line_name = args
    calls = list(eng.st.calls)
    if not calls:
        return Conc(True)          # invariant evaluated outside an iteration
    line = eng.st.vars[line_name.v]
    obj = eng.heap()[me.rid]
    f = obj.fields
    present = {
        "replace_matching_item": z3.And(f["compiled_regexes"].some, f["pwd_lookup"].some),
        "anonymize_ip_addr@v6": f["anonymizer6"].some, "anonymize_ip_addr@v4": f["anonymizer4"].some,
        "SensitiveWordAnonymizer.anonymize": f["anonymizer_sensitive_word"].some,
        "anonymize_as_numbers": f["anonymizer_as_num"].some}
    cur = line
    idx = 0
    seen = []
    writes = 0
    for key, env in calls:
        if key == "write":
            writes += 1
            if not _same(eng, env["value"], cur):
                return Conc(False)
            continue
        if writes:
            return Conc(False)                      # nothing may run after the write
        short = key.split(":")[1]
        while idx < len(STAGES) and STAGES[idx][0] != short:
            idx += 1
        if idx >= len(STAGES):
            return Conc(False)                      # unknown stage, repeated stage or wrong order
        stage, param = STAGES[idx]
        idx += 1
        seen.append(stage)
        if not _same(eng, env[param], cur):
            return Conc(False)                      # stage does not receive the previous stage's output
        # own configuration
        if stage.startswith("anonymize_ip_addr"):
            fld = "anonymizer6" if stage.endswith("v6") else "anonymizer4"
            if not _same(eng, env["anonymizer"], f[fld]) or not _same(eng, env["undo_ip_anon"], f["undo_ip_anon"]):
                return Conc(False)
        if stage == "replace_matching_item":
            if not (_same(eng, env["pwd_lookup"], f["pwd_lookup"]) and _same(eng, env["salt"], f["salt"])
                    and _same(eng, env["compiled_regexes"], f["compiled_regexes"])):
                return Conc(False)
            rw = eng.heap()[f["reserved_words"].rid]
            if not eng.term(env["reserved_words"]).eq(rw.term):
                return Conc(False)
        if stage == "SensitiveWordAnonymizer.anonymize" and not _same(eng, env["self"], f["anonymizer_sensitive_word"]):
            return Conc(False)
        if stage == "anonymize_as_numbers" and not _same(eng, env["anonymizer"], f["anonymizer_as_num"]):
            return Conc(False)
        cur = env["result"]
    if writes != 1:
        return Conc(False)
    absent = [z3.Not(present[s]) for s, _ in STAGES if s not in seen]
    return P(BOOL, z3.And(absent) if absent else z3.BoolVal(True))


SPEC_BUILTINS["PipelineOK"] = _sp_pipeline_ok

WF4 = "implies(self.anonymizer4 is not None, WF(self.anonymizer4) and self.anonymizer4.length == 32)"
WF6 = "implies(self.anonymizer6 is not None, WF(self.anonymizer6) and self.anonymizer6.length == 128)"
ASOK = "implies(self.anonymizer_as_num is not None, AsOK(self.anonymizer_as_num))"
WOK = "implies(self.anonymizer_sensitive_word is not None, MemoOK(self.anonymizer_sensitive_word))"

R.contract(M + "FileAnonymizer.anonymize_io",
           types={"self": FA, "in_io": IN, "out_io": OUT}, returns=NONE,
           requires=[WF4, WF6, ASOK, WOK],
           modifies=["out_io.written", "self.pwd_lookup", "self.anonymizer4.cache", "self.anonymizer6.cache",
                     "self.anonymizer_sensitive_word.sens_word_replacements", "log"],
           # a file that cannot be read fails before anything is written or recorded (fault isolation, C16)
           raises={"UnicodeDecodeError": None},
           raises_ensures=["seq(out_io.written) == seq(old(out_io.written))", "ncalls('replace_matching_item') == 0"],
           ensures=[WF4, WF6, ASOK, WOK,
                    # exactly one output line per input line
                    "len(seq(out_io.written)) == len(seq(old(out_io.written))) + len(seq(in_io.lines))"],
           loops={0: LoopContract(["line"], index="_i0",
                                  heap_modifies=["out_io.written", "self.pwd_lookup", "self.anonymizer4.cache",
                                                 "self.anonymizer6.cache",
                                                 "self.anonymizer_sensitive_word.sens_word_replacements"],
                                  invariant=[WF4, WF6, ASOK, WOK,
                                             "len(seq(out_io.written)) == len(seq(old(out_io.written))) + _i0",
                                             "PipelineOK(self, 'line')"])})


# ---------------------------------------------------------------- anonymize_files (C16): directory run
def _sp_file_iteration_ok(eng, args, kw, n):
    """FileIterationOK('in_path', 'out_path'): ghost trace check of one iteration of the per-file loop -
    the only file opened for reading is in_path, the only one opened for writing is out_path, directories are
    created only for the parent of out_path, and the stream function is entered at most once."""
    calls = list(eng.st.calls)
    if not calls:
        return Conc(True)
    inp, outp = eng.st.vars[args[0].v], eng.st.vars[args[1].v]
    opens = [e for k, e in calls if k == "open"]
    for e in opens:
        mode = e["mode"].v if isinstance(e["mode"], Conc) else None
        if e["options"].v:
            return Conc(False)        # every entry point opens its files the same, default way (C16: identical content)
        if mode == "r":
            if not _same(eng, e["path"], inp):
                return Conc(False)
        elif mode == "w":
            if not _same(eng, e["path"], outp):
                return Conc(False)
        else:
            return Conc(False)
    ios = [e for k, e in calls if k.endswith("FileAnonymizer.anonymize_io")]
    if len(ios) > 1:
        return Conc(False)
    # the one anonymizer of the run serves every file (shared secret lookup, C08); none is built per file
    if any(k.endswith("FileAnonymizer.__init__") for k, _ in calls):
        return Conc(False)
    for e in ios:
        if not _same(eng, e["self"], eng.st.vars["file_anonymizer"]):
            return Conc(False)
    import z3 as _z3
    from pyvc.lib import uf, S
    for k, e in calls:
        if k == "os.makedirs":
            want = uf("os_dirname_1", S, S)(eng.term(outp, STR))
            if not eng.term(e["path"], STR).eq(want):
                return Conc(False)
    return Conc(True)


SPEC_BUILTINS["FileIterationOK"] = _sp_file_iteration_ok


def _sp_constructed_from_own_args(eng, args, kw, n):
    """ConstructedFromOwnArgs(): evaluated where the per-file loop is entered - the trace up to here holds exactly one
    construction of FileAnonymizer, and each of its options is bound to anonymize_files' own parameter of the same
    name (no option dropped, swapped or replaced by a default)."""
    cons = [e for k, e in eng.st.calls if k.endswith("FileAnonymizer.__init__")]
    if len(cons) != 1:
        return Conc(False)
    e = cons[0]
    for p_ in ("anon_pwd", "anon_ip", "salt", "sensitive_words", "undo_ip_anon", "as_numbers", "reserved_words",
               "preserve_prefixes", "preserve_networks", "preserve_suffix_v4", "preserve_suffix_v6"):
        if p_ not in e or p_ not in eng.st.vars or not _same(eng, e[p_], eng.st.vars[p_]):
            return Conc(False)
    return Conc(True)


SPEC_BUILTINS["ConstructedFromOwnArgs"] = _sp_constructed_from_own_args


def _sp_opens_only(eng, args, kw, n):
    """OpensOnly('dumpfile'): the trace since the per-file loop opens nothing but the named path, for writing, once"""
    opens = [e for k, e in eng.st.calls if k == "open"]
    if len(opens) > 1:
        return Conc(False)
    for e in opens:
        if not (isinstance(e["mode"], Conc) and e["mode"].v == "w" and not e["options"].v
                and _same(eng, e["path"], eng.st.vars[args[0].v])):
            return Conc(False)
    return Conc(True)


SPEC_BUILTINS["OpensOnly"] = _sp_opens_only
R.contracts[M + "FileAnonymizer.anonymize_io"].record = True
R.contracts[M + "FileAnonymizer.__init__"].record = True
FA_OK = ["implies(file_anonymizer.anonymizer4 is not None, WF(file_anonymizer.anonymizer4) and file_anonymizer.anonymizer4.length == 32)",
         "implies(file_anonymizer.anonymizer6 is not None, WF(file_anonymizer.anonymizer6) and file_anonymizer.anonymizer6.length == 128)",
         "implies(file_anonymizer.anonymizer_as_num is not None, AsOK(file_anonymizer.anonymizer_as_num))",
         "implies(file_anonymizer.anonymizer_sensitive_word is not None, MemoOK(file_anonymizer.anonymizer_sensitive_word))"]

R.contract(M + "anonymize_files@impl", 
           types={"input_path": STR, "output_path": STR, "anon_pwd": BOOL, "anon_ip": BOOL, "salt": Opt(STR),
                  "dumpfile": Opt(STR), "sensitive_words": Opt(LS), "undo_ip_anon": BOOL, "as_numbers": Opt(LS),
                  "reserved_words": Opt(LS), "preserve_prefixes": Opt(LS), "preserve_networks": Opt(LS),
                  "preserve_suffix_v4": Opt(INT), "preserve_suffix_v6": Opt(INT)},
           returns=NONE,
           requires=["implies(preserve_suffix_v4 is not None, 0 <= preserve_suffix_v4 and preserve_suffix_v4 <= 32)",
                     "implies(preserve_suffix_v6 is not None, 0 <= preserve_suffix_v6 and preserve_suffix_v6 <= 128)",
                     "implies(preserve_prefixes is not None, all(ValidNet4(p) for p in preserve_prefixes))",
                     "implies(preserve_networks is not None, all(ValidNet4(p) for p in preserve_networks))",
                     "implies(as_numbers is not None, all(IsNumeral(n) and int(n) <= 4294967295 for n in as_numbers))",
                     # the map can only be dumped when the IP anonymizers exist (main enforces this)
                     "implies(dumpfile is not None, anon_ip or undo_ip_anon)"],
           modifies=["log"],
           # unusable input/output combinations are rejected before anything is opened
           # ... and the only other failure is the map file not being writable, after all files were processed:
           # a file that cannot be processed never makes the run fail
           raises={"ValueError": None, "OSError": None},
           raises_ensures=["implies(raised('ValueError'), ncalls('open') == 0)",
                           "implies(raised('OSError'), dumpfile is not None and OpensOnly('dumpfile'))"],
           ensures=["OpensOnly('dumpfile')", "implies(dumpfile is None, ncalls('open') == 0)"],
           loops={0: LoopContract(["dirs", "files", "root"], index="_i0", cell_types={"file_list": Opq("Pair")},
                                  invariant=["all(PairOK(p, input_path, output_path) for p in file_list)"]),
                  1: LoopContract(["in_path", "out_path"], index="_i1",
                                  heap_modifies=["file_anonymizer.pwd_lookup", "file_anonymizer.anonymizer4.cache",
                                                 "file_anonymizer.anonymizer6.cache",
                                                 "file_anonymizer.anonymizer_sensitive_word.sens_word_replacements"],
                                  entry_ensures=["ConstructedFromOwnArgs()"],
                                  invariant=FA_OK + ["all(PairOK(p, input_path, output_path) for p in file_list)",
                                                     "FileIterationOK('in_path', 'out_path')"])})

# the walk-loop step needs a chain of instances (nth of a concatenation -> soundness of the filtered comprehension ->
# pair projections -> introduction rule of Mirror): more instantiation rounds than the default two
R.contracts[M + "anonymize_files@impl"].inst_rounds = 5


# ---------------------------------------------------------------- FileAnonymizer.anonymize_file (C16): single-file API
def _sp_single_file_ok(eng, args, kw, n):
    """SingleFileOK('in_file', 'out_file'): the input is opened for reading and the output for writing, in that order,
    both the default way (no newline/encoding/... option - the same way anonymize_files opens them, so that every
    entry point produces identical content), and the stream function is applied once, to self"""
    calls = list(eng.st.calls)
    opens = [e for k, e in calls if k == "open"]
    if len(opens) != 2:
        return Conc(False)
    for e, var, mode in ((opens[0], args[0].v, "r"), (opens[1], args[1].v, "w")):
        if not (isinstance(e["mode"], Conc) and e["mode"].v == mode and not e["options"].v
                and _same(eng, e["path"], eng.st.vars[var])):
            return Conc(False)
    ios = [e for k, e in calls if k.endswith("FileAnonymizer.anonymize_io")]
    if len(ios) != 1 or not _same(eng, ios[0]["self"], eng.st.vars["self"]):
        return Conc(False)
    return Conc(True)


SPEC_BUILTINS["SingleFileOK"] = _sp_single_file_ok
R.contract(M + "FileAnonymizer.anonymize_file",
           types={"self": FA, "in_file": STR, "out_file": STR}, returns=NONE,
           requires=[WF4, WF6, ASOK, WOK],
           modifies=["self.pwd_lookup", "self.anonymizer4.cache", "self.anonymizer6.cache",
                     "self.anonymizer_sensitive_word.sens_word_replacements", "log"],
           raises={"ValueError": None, "OSError": None, "UnicodeDecodeError": None},
           raises_ensures=["implies(raised('ValueError'), ncalls('open') == 0)"],
           ensures=[WF4, WF6, ASOK, WOK, "SingleFileOK('in_file', 'out_file')"])


# ---------------------------------------------------------------- FileAnonymizer.__init__: which lists reach IpAnonymizer
R.contracts["netconan.ip_anonymization:IpAnonymizer.__init__"].record = True


def _sp_ip4_from_own_options(eng, args, kw, n):
    """Ip4FromOwnOptions(): if an IPv4 anonymizer was built, it was built once, with this FileAnonymizer's own
    preserve_prefixes as prefixes and its own preserve_networks as preserved addresses (C04/C05: neither list is
    dropped, swapped or replaced by a default)"""
    cons = [e for k, e in eng.st.calls if k.endswith(":IpAnonymizer.__init__")]
    if not cons:
        return Conc(True)
    if len(cons) != 1:
        return Conc(False)
    e = cons[0]
    ok = _same(eng, e["preserve_prefixes"], eng.st.vars["preserve_prefixes"]) and \
        _same(eng, e["preserve_addresses"], eng.st.vars["preserve_networks"])
    return Conc(bool(ok))


SPEC_BUILTINS["Ip4FromOwnOptions"] = _sp_ip4_from_own_options
R.contracts[M + "FileAnonymizer.__init__"].ensures.append("Ip4FromOwnOptions()")
