"""Bounded stand-ins / witness search for the text-level properties on the REAL code (labelled bounded).
args (JSON, argv[1]): {"property": "...", "tier": "quick"|"thorough", "seed": int, "replay": {...}?}
prints one JSON line: {evaluations, distinct_nontrivial, failures:[{tag,input,detail,obligation_hint}], samples, bound, rule}
"""
import io
import ipaddress
import itertools
import json
import logging
import random
import re
import sys
import traceback

logging.disable(logging.CRITICAL)

from netconan import ip_anonymization as ipa  # noqa: E402
from netconan.ip_anonymization import IpAnonymizer, IpV6Anonymizer, anonymize_ip_addr  # noqa: E402
from netconan import sensitive_item_removal as sir  # noqa: E402
from netconan.utils import juniper_secrets as js  # noqa: E402

ARGS = json.loads(sys.argv[1])
TIER = ARGS.get("tier", "quick")
RNG = random.Random(ARGS.get("seed", 0))
FAILS, SAMPLES, EVALS, DISTINCT, LAST = [], [], [0], set(), [None]
MAXFAIL = 6


def fail(tag, inp, detail, hint=""):
    if sum(1 for f in FAILS if f["tag"] == tag) < 3 and len(FAILS) < 12:
        FAILS.append({"tag": tag, "input": inp, "detail": str(detail)[:300], "obligation_hint": hint})


def note(case):
    LAST[0] = repr(case)[:300]
    EVALS[0] += 1
    DISTINCT.add(case if isinstance(case, (str, int, tuple)) else repr(case))
    if len(SAMPLES) < 3:
        SAMPLES.append(case if isinstance(case, (str, int, list)) else repr(case))


# ------------------------------------------------------------------------------------------------ C06
A6 = set("0123456789abcdefghijklmnopqrstuvwxyzABCDEFGHIJKLMNOPQRSTUVWXYZ:")
A4 = set("0123456789abcdefghijklmnopqrstuvwxyzABCDEFGHIJKLMNOPQRSTUVWXYZ.")
V4RE = re.compile(r"(0*(25[0-5]|2[0-4][0-9]|1[0-9][0-9]|[1-9][0-9]|[0-9])\.){3}0*(25[0-5]|2[0-4][0-9]|1[0-9][0-9]|[1-9][0-9]|[0-9])\Z")


def runs(line, alphabet):
    out, i = [], 0
    while i < len(line):
        if line[i] in alphabet:
            j = i
            while j < len(line) and line[j] in alphabet:
                j += 1
            out.append((i, j))
            i = j
        else:
            i += 1
    return out


def valid6(tok):
    if "%" in tok or not tok:
        return None
    try:
        return ipaddress.IPv6Address(tok)
    except ValueError:
        return None


def ref_pass6(an6, line):
    """reference for the IPv6 pass: standalone tokens; a token with an IPv4-style tail counts as a whole"""
    out, pos = [], 0
    dotted_hit = False
    for (i, j) in runs(line, A6 | {"."}):
        big = line[i:j]
        ip = valid6(big) if (":" in big and "." in big) else None
        if ip is not None and not big.endswith(".") and not big.startswith("."):
            out.append(line[pos:i])
            out.append(str(ipaddress.IPv6Address(an6.anonymize(int(ip)))))
            pos = j
            dotted_hit = True
            continue
        for (a, b) in runs(big, A6):
            tok = big[a:b]
            ip = valid6(tok) if "." not in tok else None
            if ip is not None:
                out.append(line[pos:i + a])
                out.append(str(ipaddress.IPv6Address(an6.anonymize(int(ip)))))
                pos = i + b
    out.append(line[pos:])
    return "".join(out), dotted_hit


def ref_pass4(an4, line):
    out, pos = [], 0
    for (i, j) in runs(line, A4):
        tok = line[i:j]
        if V4RE.match(tok):
            val = 0
            for part in tok.split("."):
                val = val * 256 + int(part)
            if an4.should_anonymize(val):
                out.append(line[pos:i])
                out.append(str(ipaddress.IPv4Address(an4.anonymize(val))))
                pos = j
    out.append(line[pos:])
    return "".join(out)


SPELLINGS = ["1.2.3.4", "001.02.3.004", "255.255.255.0", "256.1.1.1", "1.2.3", "1.2.3.4.5", "11.22.33.44/24",
             "2001:db8::1", "2001:DB8::A", "::", "::1", "1::", "1:2:3:4:5:6:7:8", "1:2:3:4:5:6:7:8:9", "fe80::1%eth0",
             "fe80:%x", "::ffff:1.2.3.4", "::1.2.3.4", "1:2::1.2.3.4", "1:2:3:4:5:6:1.2.3.4", "01:23:45:67:89:ab",
             "a:b:c:d:e:f:1:2", "1::2::3", ":::", "12345::1", "g::1", "1.2.3.4.example.net", "x1.2.3.4", "1.2.3.4x",
             "2001:db8::/32", "[2001:db8::1]:80", "10.0.0.1:8080", "1.2.0333.4", "0.0.0.0", "::ffff:0:1.2.3.4"]


def c06_lines():
    alpha = "125.:/a "
    n = 5 if TIER == "quick" else 6
    for k in range(1, n + 1):
        for t in itertools.product(alpha, repeat=k):
            yield "".join(t)
    delims = [" ", ",", "/", "(", ")", "-", "_", "\t", "=", '"', "#", "@"]
    for s in SPELLINGS:
        yield s
        for d in delims:
            yield d + s + d
            yield "x" + d + s
            yield s + d + "y"
        for i in range(len(s)):      # single-character edits
            for c in "0:.a%":
                yield s[:i] + c + s[i + 1:]
            yield s[:i] + s[i + 1:]


def c06():
    an6, an4 = IpV6Anonymizer("salt6"), IpAnonymizer("salt6", preserve_suffix=8)
    r6, r4 = IpV6Anonymizer("salt6"), IpAnonymizer("salt6", preserve_suffix=8)
    for line in c06_lines():
        note(line)
        try:
            got = anonymize_ip_addr(an4, anonymize_ip_addr(an6, line))
        except Exception as e:  # noqa
            fail("C06.exception", {"line": line}, "%s: %s" % (type(e).__name__, e), "safe")
            continue
        e6, dotted = ref_pass6(r6, line)
        exp = ref_pass4(r4, e6)
        if got != exp:
            tag = "C06.dotted" if dotted else "C06.mismatch"
            fail(tag, {"line": line, "got": got, "expected": exp},
                 "address substitution differs from the token-level reference", "IPv6_PATTERN" if dotted else "PATTERN")


# ------------------------------------------------------------------------------------------------ C11
BLOCKS = [(0, 64511), (64512, 65535), (65536, 4199999999), (4200000000, 4294967295)]


def block(n):
    for i, (a, b) in enumerate(BLOCKS):
        if a <= n <= b:
            return i
    return None


def c11():
    vals = set()
    for a, b in BLOCKS:
        for d in (-2, -1, 0, 1, 2):
            for x in (a + d, b + d):
                if 0 <= x <= 4294967295:
                    vals.add(x)
    vals |= {RNG.randrange(0, 2 ** 32) for _ in range(50 if TIER == "quick" else 2000)}
    salts = ["", "s", "sält", "0"] + ["r%d" % i for i in range(4 if TIER == "quick" else 46)]
    for salt in salts:
        nums = [str(v) for v in sorted(vals)]
        an = sir.AsNumberAnonymizer(nums, salt)
        an2 = sir.AsNumberAnonymizer(list(reversed(nums))[:7] + nums, salt)
        for s in nums:
            note((salt, s))
            r = an.anonymize(s)
            if not r.isdigit() or block(int(r)) != block(int(s)):
                fail("C11.block", {"salt": salt, "as_number": s, "replacement": r}, "replacement outside the AS block",
                     "_generate_as_number_replacement")
            if an2.anonymize(s) != r:
                fail("C11.keyed", {"salt": salt, "as_number": s}, "replacement depends on more than salt and number",
                     "_generate_as_number_replacement")
    # many numbers of one small block (replacements collide): still a function of salt and number only
    dense = [str(x) for x in RNG.sample(range(64512, 65536), 300 if TIER == "quick" else 1000)]
    for salt in salts[:3]:
        fwd, bwd = sir.AsNumberAnonymizer(list(dense), salt), sir.AsNumberAnonymizer(list(reversed(dense)), salt)
        for n_ in dense[:120]:
            note((salt, "dense", n_))
            alone = sir.AsNumberAnonymizer([n_], salt).anonymize(n_)
            if fwd.anonymize(n_) != alone or bwd.anonymize(n_) != alone:
                fail("C11.keyed", {"salt": salt, "as_number": n_, "alone": alone, "in_list": fwd.anonymize(n_),
                                   "in_reversed_list": bwd.anonymize(n_)},
                     "replacement depends on which other numbers are listed", "_generate_as_number_replacement_map")
                break
    # a listed number whose replacement is itself listed: every number is replaced once, by its own replacement
    for salt in salts[:4]:
        for n in ("64512", "65000", "70000", "4200000001", "100"):
            r = sir.AsNumberAnonymizer([n], salt).anonymize(n)
            if r == n:
                continue
            rr = sir.AsNumberAnonymizer([r], salt).anonymize(r)
            for lst in ([n, r], [r, n]):
                anon = sir.AsNumberAnonymizer(list(lst), salt)
                line = "router bgp %s\n neighbor 1.1.1.1 remote-as %s\n" % (n, r)
                note((salt, "chain", n, tuple(lst)))
                got = sir.anonymize_as_numbers(anon, line)
                exp = "router bgp %s\n neighbor 1.1.1.1 remote-as %s\n" % (r, rr)
                if got != exp:
                    fail("C11.chain", {"salt": salt, "listed": lst, "line": line, "got": got, "expected": exp},
                         "a replacement was replaced again / depends on the rest of the list", "anonymize_as_numbers")
    # line level: standalone vs embedded numbers; numbers that are prefixes of each other
    listed = ["65000", "650", "123", "12345", "4200000000"]
    an = sir.AsNumberAnonymizer(listed, "salt")
    toks = listed + ["6500", "650001", "1234", "0123", "65000x", "x65000", "1", "12"]
    seps = [" ", ",", ":", "-", ".", "(", ")", "_", "a", "\t", ""]
    lines = set()
    for a in toks:
        for s1 in seps:
            for s2 in seps:
                lines.add(s1 + a + s2)
                for b in toks[:6]:
                    lines.add(a + s1 + b + s2)
    if TIER != "quick":
        for t in itertools.product("123a -", repeat=6):
            lines.add("".join(t))
    an_small = sir.AsNumberAnonymizer(["123", "12", "1"], "salt")
    for line in sorted(lines):
        for anon, lst in ((an, listed), (an_small, ["123", "12", "1"])):
            note((line, len(lst)))
            got = sir.anonymize_as_numbers(anon, line)
            exp = re.sub(r"[0-9]+", lambda m: anon.anonymize(m.group(0)) if m.group(0) in lst else m.group(0), line) \
                if line.isascii() else None
            if exp is not None and got != exp:
                fail("C11.line", {"line": line, "listed": lst, "got": got, "expected": exp},
                     "only standalone listed numbers may change", "as_num_regex")


# ------------------------------------------------------------------------------------------------ C18
def c18():
    alpha = js.NUM_ALPHA
    salts = list(alpha) + [None, "", "_x", "!y", "xyz", "\n", "é"]
    plains = [chr(c) for c in range(256)]
    two = [chr(a) + chr(b) for a in (0, 1, 31, 65, 127, 128, 255) for b in range(0, 256, 5)]
    longs = ["".join(chr(RNG.randrange(256)) for _ in range(RNG.randrange(3, 40))) for _ in range(40 if TIER == "quick" else 1500)]
    valid = re.compile(r"\$9\$[%s]{4,}\Z" % re.escape("".join(alpha)))
    for salt in salts:
        ps = plains + (two if salt in (None, "n", "Q", "T") or TIER != "quick" else []) + longs[: (6 if TIER == "quick" else 200)]
        for p in ps:
            note((salt, p))
            c = js.juniper_nonrandom_encrypt(p, salt)
            if not valid.match(c):
                fail("C18.wellformed", {"plain": p, "salt": salt, "crypt": c}, "not a well-formed $9$ string",
                     "juniper_nonrandom_encrypt#post")
                continue
            d = js.juniper_decrypt(c)
            if d != p:
                fail("C18.roundtrip", {"plain": p, "salt": salt, "crypt": c, "decrypted": d}, "round trip differs",
                     "_gap_encode#post")
    # empty plaintext: the format needs at least 4 characters after $9$
    for salt in alpha:
        note((salt, ""))
        c = js.juniper_nonrandom_encrypt("", salt)
        try:
            if js.juniper_decrypt(c) != "":
                fail("C18.empty", {"salt": salt, "crypt": c}, "empty plaintext does not round-trip", "post")
        except ValueError:
            fail("C18.empty", {"salt": salt, "crypt": c}, "encrypt('') gives a string decrypt refuses", "post")
    # malformed strings: ValueError or a result, never another exception
    bad = ["", "$9$", "$9$a", "$9$abc", "$9$abcd\n", "$9$ab!d", "$8$abcdef", "9$abcd", "$9$abcd ", " $9$abcd",
           "$9$" + "a" * 5, "$9$" + "Q" * 7, "$9$éabc", "$9$abcd\x00"]
    for k in range(4, 9 if TIER == "quick" else 12):
        for _ in range(60 if TIER == "quick" else 1000):
            bad.append("$9$" + "".join(RNG.choice(alpha) for _ in range(k)))
    # truncated encryptions: a string cut inside a character group is malformed
    for salt in list(alpha)[:: (8 if TIER == "quick" else 1)]:
        for n in range(1, 10):
            p = "".join(chr(RNG.randrange(256)) for _ in range(n))
            c = js.juniper_nonrandom_encrypt(p, salt)
            bad += [c[:-1], c[:-2], c[:-3]]

    def structurally_ok(s, d):
        """an accepted string must consist of the magic, the salt character, its filler and exactly one complete group
        per plaintext character (group lengths and filler counts are the codec's tables, not its code)"""
        extra = js.EXTRA[s[3]]
        return len(s) - 4 - extra == sum(len(js.ENCODING[i % len(js.ENCODING)]) for i in range(len(d)))

    for s in bad:
        note(("bad", s))
        try:
            d = js.juniper_decrypt(s)
            if not structurally_ok(s, d):
                fail("C18.garbage", {"crypt": s, "decrypted": d}, "a malformed string (incomplete character group) "
                     "was decrypted instead of being refused", "juniper_decrypt")
        except ValueError:
            pass
        except Exception as e:  # noqa
            fail("C18.malformed", {"crypt": s}, "%s instead of ValueError: %s" % (type(e).__name__, e),
                 "juniper_decrypt")


CHECKS = {"C06": [c06], "C11": [c11], "C18": [c18]}
BOUNDS = {
    "C06": "all strings of length <= 5 (quick) / 6 (thorough) over {1,2,5,.,:,/,a,space}; 35 address spellings x 12 delimiters "
           "x 3 positions; all single-character edits of the spellings; real two-pass substitution vs an independent token-level reference",
    "C11": "block boundaries +-2 and 50/2000 random numbers x 8/50 salts; 4 salts x 5 numbers x both list orders with the replacement itself listed; 300/1000 numbers of the 16-bit private block (colliding replacements) listed in both orders vs alone; ~10k generated lines (standalone / embedded / prefix-of-each-other numbers)",
    "C18": "truncated encryptions (9 lengths x 9/65 salts x 3 cuts) must be refused or decode structurally; 72 salts (65 alphabet characters, None, empty, non-alphabet) x all 256 single characters (+ pairs, 6/200 random long plaintexts); "
           "~300/5000 malformed strings",
}


def guarded(f):
    try:
        f()
    except Exception as e:  # noqa
        tb = traceback.extract_tb(sys.exc_info()[2])
        where = [fr for fr in tb if "netconan" in fr.filename]
        loc = "%s:%d" % (where[-1].filename.split("/")[-1], where[-1].lineno) if where else ""
        fail(ARGS["property"] + ".exception", {"check": getattr(f, "__name__", "check"), "last_case": LAST[0]},
             "%s: %s at %s" % (type(e).__name__, e, loc), "safe")


def main():
    pid = ARGS["property"]
    for f in CHECKS.get(pid, []):
        guarded(f)
    if ARGS.get("replay"):
        w = ARGS["replay"]
        fails = [x for x in FAILS if x["tag"] == w.get("tag")]
        print(json.dumps({"evaluations": EVALS[0], "failures": fails}, default=str))
        return
    print(json.dumps({"evaluations": EVALS[0], "distinct_nontrivial": len(DISTINCT), "failures": FAILS,
                      "samples": SAMPLES, "bound": BOUNDS.get(pid, ""),
                      "rule": "deterministic enumeration/generation (seeded); a case is one input (line / value / "
                              "configuration tuple); distinct = distinct cases"}, default=str))


main()
