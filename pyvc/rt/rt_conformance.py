"""Conformance of the ASSUMED library contracts (contracts/externals.py) with the installed libraries.
A failure here means an assumption of the verifier is wrong (checker error, exit 3) - not a defect of netconan.
Runs under the repo's interpreter; prints one JSON line {evaluations, failures:[{tag,input,detail}], tags:[...]}.
"""
import io
import ipaddress
import itertools
import json
import os
import random
import re
import sys
import tempfile
from binascii import b2a_hex
from hashlib import md5

ARGS = json.loads(sys.argv[1]) if len(sys.argv) > 1 else {}
RNG = random.Random(ARGS.get("seed", 0))
QUICK = ARGS.get("tier", "quick") == "quick"
FAILS, EVALS, TAGS = [], [0], []


def bad(tag, inp, detail):
    if len(FAILS) < 10:
        FAILS.append({"tag": tag, "input": repr(inp)[:200], "detail": str(detail)[:200]})


def ok():
    EVALS[0] += 1


def t_md5():
    TAGS.append("E-md5")
    for _ in range(300 if QUICK else 10000):
        s = "".join(chr(RNG.randrange(32, 0x2000)) for _ in range(RNG.randrange(0, 12)))
        h = md5(s.encode()).hexdigest()
        ok()
        if not re.fullmatch(r"[0-9a-f]{32}", h) or h != md5(s.encode()).hexdigest() or int(h, 16) < 0:
            bad("E-md5", s, h)


def t_format():
    TAGS.append("E-format")
    for L in range(1, 9 if QUICK else 11):
        fmt = "{{:0{length}b}}".format(length=L)
        for n in range(2 ** L):
            b = fmt.format(n)
            ok()
            if len(b) != L or set(b) - set("01") or int(b, 2) != n:
                bad("E-format", (L, n), b)
    for L in (32, 128):
        fmt = "{{:0{length}b}}".format(length=L)
        for _ in range(200):
            n = RNG.getrandbits(L)
            b = fmt.format(n)
            ok()
            if len(b) != L or int(b, 2) != n or fmt.format(int(b, 2)) != b:
                bad("E-format", (L, n), b)
    for x in (0, 5, 10 ** 30):
        ok()
        if "{}".format(x) != str(x) or not str(x).isdigit():
            bad("E-format", x, str(x))


def t_bidict():
    TAGS.append("E-bidict")
    from bidict import bidict, ValueDuplicationError
    keys, vals = "abc", "xyz"
    ops = [(k, v, side) for k in keys for v in vals for side in (0, 1)]
    for seq in itertools.product(ops, repeat=2 if QUICK else 3):
        b = bidict({"": ""})
        fwd, inv = {"": ""}, {"": ""}
        for k, v, side in seq:
            kk, vv = (k, v) if side == 0 else (v, k)
            f, i = (fwd, inv) if side == 0 else (inv, fwd)
            # model of contracts/externals: value present under another key -> error; else overwrite key's pair
            dup = vv in i and i[vv] != kk
            try:
                if side == 0:
                    b[kk] = vv
                else:
                    b.inv[kk] = vv
                raised = False
            except ValueDuplicationError:
                raised = True
            ok()
            if raised != dup:
                bad("E-bidict", seq, "duplication rule differs")
                break
            if not raised:
                if kk in f and f[kk] != vv:
                    del i[f[kk]]
                f[kk] = vv
                i[vv] = kk
            if dict(b) != fwd or dict(b.inv) != inv:
                bad("E-bidict", seq, "state differs from the model")
                break
            if b.get("nokey") is not None or b.inv.get("nokey") is not None:
                bad("E-bidict", seq, "get on a missing key")
        if sorted(b.items()) != sorted(fwd.items()):
            bad("E-bidict", seq, "items()")


def t_ipaddress():
    TAGS.append("E-ipaddress")
    for txt in ("10.0.0.0/8", "1.2.3.4", "0.0.0.0/0", "255.255.255.255/32", "192.168.0.0/16"):
        n = ipaddress.ip_network(txt)
        ok()
        if not (0 <= n.prefixlen <= 32 and 0 <= int(n.network_address) < 2 ** 32):
            bad("E-ipaddress", txt, "range")
        for _ in range(50):
            a = RNG.getrandbits(32)
            inside = ipaddress.ip_address(a) in n
            b1, b2 = format(a, "032b")[: n.prefixlen], format(int(n.network_address), "032b")[: n.prefixlen]
            ok()
            if inside != (b1 == b2):
                bad("E-ipaddress", (txt, a), "membership is not prefix equality")
    for txt in ("10.0.0.1/8", "300.1.1.1", "1.2.3", "x", "1.2.3.4/33", ""):
        ok()
        try:
            ipaddress.ip_network(txt)
            bad("E-ipaddress", txt, "accepted a non-strict / malformed network")
        except ValueError:
            pass
    for bits, cls in ((32, ipaddress.IPv4Address), (128, ipaddress.IPv6Address)):
        for x in (0, 1, 2 ** bits - 1, RNG.getrandbits(bits)):
            ok()
            if int(cls(x)) != x or int(cls(str(cls(x)))) != x:
                bad("E-ipaddress", (bits, x), "int/str round trip")
        for x in (-1, 2 ** bits):
            ok()
            try:
                cls(x)
                bad("E-ipaddress", (bits, x), "out-of-range int accepted")
            except ValueError:
                pass
    for txt in ("fe80:%x", "1::2::3", ":::", "12345::1", "g::1", "1.2.3.4.5", "256.1.1.1"):
        ok()
        for cls in (ipaddress.IPv4Address, ipaddress.IPv6Address):
            try:
                cls(txt)
                bad("E-ipaddress", txt, "malformed text accepted by %s" % cls.__name__)
            except ValueError:          # AddressValueError is a ValueError
                pass
    ok()
    if "." in str(ipaddress.IPv6Address("::ffff:1.2.3.4")):
        bad("E-ipaddress", "::ffff:1.2.3.4", "str(IPv6Address) contains a dot (assumed not to)")


def t_dropzeros():
    TAGS.append("E-dropzeros")
    from netconan.ip_anonymization import IpAnonymizer
    for v in range(256):
        for z in range(0, 3 if QUICK else 5):
            for pos in range(4):
                parts = ["7", "7", "7", "7"]
                parts[pos] = "0" * z + str(v)
                ok()
                got = int(IpAnonymizer.make_addr(".".join(parts)))
                exp = sum((v if i == pos else 7) << (8 * (3 - i)) for i in range(4))
                if got != exp:
                    bad("E-dropzeros", parts, got)


def t_resub():
    TAGS.append("E-resub")
    from netconan.ip_anonymization import IPv4_PATTERN
    alpha = "12.:/a "
    for k in range(1, 6 if QUICK else 7):
        for t in itertools.product(alpha, repeat=k):
            s = "".join(t)
            calls = []
            got = IPv4_PATTERN.sub(lambda m: calls.append(m.group(0)) or "<%s>" % m.group(0), s)
            # reference: leftmost non-overlapping scan with search()
            out, pos, ref = [], 0, []
            while True:
                m = IPv4_PATTERN.search(s, pos)
                if not m:
                    break
                out.append(s[pos:m.start()])
                out.append("<%s>" % m.group(0))
                ref.append(m.group(0))
                pos = m.end() if m.end() > m.start() else m.end() + 1
            out.append(s[pos:])
            ok()
            if got != "".join(out) or calls != ref:
                bad("E-resub", s, got)
    ok()
    try:
        re.compile("(a)").sub("\\g<9>", "a")
        bad("E-resub", "template", "bad template accepted")
    except (re.error, IndexError):
        pass
    ok()
    if re.search(r"^ab$", "ab\n") is None or re.search(r"^ab\Z", "ab\n") is not None:
        bad("E-resub", "$", "'$' / '\\Z' semantics differ from the model")


def t_strws():
    TAGS.append("E-strws")
    alpha = "a \t\n\x0c"
    for k in range(0, 5 if QUICK else 6):
        for t in itertools.product(alpha, repeat=k):
            s = "".join(t)
            l, r = s.lstrip(), s.rstrip()
            ok()
            if not s.endswith(l) or s[: len(s) - len(l)].strip() != "" or (l and l[0].isspace()):
                bad("E-strws", s, "lstrip")
            if not s.startswith(r) or s[len(r):].strip() != "" or (r and r[-1].isspace()):
                bad("E-strws", s, "rstrip")
            if " ".join(s.split()).split() != s.split() or any(w == "" or any(c.isspace() for c in w) for w in s.split()):
                bad("E-strws", s, "split")
            if len(s.lower()) != len(s):
                bad("E-strws", s, "lower")
    for s in ("$1$1ab$x", "$$1", "11$1x"):
        ok()
        st = s.lstrip("$1")
        if not s.endswith(st) or set(s[: len(s) - len(st)]) - set("$1") or (st and st[0] in "$1"):
            bad("E-strws", s, "lstrip(chars)")
        if len(s.split("$")) != s.count("$") + 1:
            bad("E-strws", s, "split(sep)")
    ok()
    if len("0" * 7) != 7 or "0" * -1 != "":
        bad("E-strrepeat", 7, "repeat")


def t_hex_passlib():
    TAGS.extend(["E-b2a_hex", "E-passlib"])
    from passlib.hash import cisco_type7, md5_crypt, sha512_crypt
    for _ in range(100 if QUICK else 1000):
        s = "netconanRemoved%d" % RNG.randrange(0, 10 ** 6)
        h = b2a_hex(s.encode()).decode()
        ok()
        if len(h) != 2 * len(s) or not re.fullmatch(r"[0-9a-f]*", h) or not str(int(h, 16)).isdigit():
            bad("E-b2a_hex", s, h)
        t7 = cisco_type7.using(salt=9).hash(s)
        if cisco_type7.decode(t7) != s or t7 != cisco_type7.using(salt=9).hash(s) or not t7.isascii():
            bad("E-passlib", s, t7)
        n = RNG.randrange(0, 9)
        m5 = md5_crypt.using(salt="0" * n).hash(s)
        if not m5.startswith("$1$" + "0" * n + "$") or m5 != md5_crypt.using(salt="0" * n).hash(s) or not m5.isascii():
            bad("E-passlib", (s, n), m5)
        s6 = sha512_crypt.using(rounds=5000, salt="0" * 16).hash(s)
        if not s6.startswith("$6$" + "0" * 16 + "$") or "rounds" in s6 or s6 != sha512_crypt.using(rounds=5000, salt="0" * 16).hash(s):
            bad("E-passlib", s, s6)
    ok()
    try:
        md5_crypt.using(salt="0" * 9).hash("x")
        bad("E-passlib", 9, "md5 salt of 9 characters accepted")
    except ValueError:
        pass
    ok()
    if sha512_crypt.using(rounds=5000).hash("x") == sha512_crypt.using(rounds=5000).hash("x"):
        bad("E-passlib", "sha512", "expected a random salt when none is given")


def t_os_dict():
    TAGS.extend(["E-os", "E-dict-iteration"])
    d = tempfile.mkdtemp(prefix="vcconf_")
    try:
        for name, data in (("early", b"\xff\xfe x\nb\n"), ("late", b"a\n" * 6000 + b"\xff\n")):
            p = os.path.join(d, name)
            with open(p, "wb") as f:
                f.write(data)
            ok()
            with open(p, "r") as f:
                try:
                    f.readlines()
                    bad("E-os", name, "undecodable file was read")
                except UnicodeDecodeError:
                    pass
        p = os.path.join(d, "good")
        with open(p, "w") as f:
            f.write("a\nb\n\nc")
        with open(p) as f:
            ls = f.readlines()
        ok()
        if ls != ["a\n", "b\n", "\n", "c"]:
            bad("E-os", "good", ls)
    finally:
        import shutil
        shutil.rmtree(d, ignore_errors=True)
    for _ in range(50):
        m = {RNG.randrange(100): RNG.randrange(100) for _ in range(RNG.randrange(0, 20))}
        ks = [k for k, _ in m.items()]
        ok()
        if sorted(ks) != sorted(set(m)) or len(ks) != len(m):
            bad("E-dict-iteration", m, ks)


def t_regexgroups():
    TAGS.append("E-regexgroups")
    from netconan import sensitive_item_removal as sir
    regs = sir.generate_default_sensitive_item_regexes()
    lines = ["username admin password 0 hunter2", "enable secret 5 $1$abcd$efgh", "snmp-server community public RO",
             "ip ospf message-digest-key 1 md5 7 0822455D0A16", "tacacs-server host 1.1.1.1 key 7 0822455D0A16",
             "set snmp community public authorization read-only", "pre-shared-key ascii-text \"$9$abcdefg\";",
             "snmp-server user u1 g1 auth md5 aaaa priv aes 128 bbbb", "crypto isakmp key s3cr3t address 1.2.3.4",
             "standby 1 authentication md5 key-string 7 0822455D0A16", "neighbor 1.2.3.4 password 7 0822455D0A16",
             "set community abcdef", "key \"quoted\"", "ntp authentication-key 1 md5 0822455D0A16 7",
             "username u secret sha512 $6$abc$def", "isis password foo level-2", "authentication-key \"abc\";"]
    for grp in regs:
        for cre, num in grp:
            for ln in lines:
                m = cre.search(ln)
                if m is None:
                    continue
                ok()
                if "prefix" in m.groupdict() and m.group("prefix") is None:
                    bad("E-regexgroups", (cre.pattern, ln), "prefix group is None")
                if num is not None and m.group(num) is None:
                    bad("E-regexgroups", (cre.pattern, ln), "secret group is None")


def t_juniper_trusted():
    """the TRUSTED contracts on repository functions of the $9$ codec (their loops are not verified):
    juniper_decrypt raises nothing but ValueError, whatever it accepts is VALID-shaped (J9Decodable => J9Valid);
    what juniper_nonrandom_encrypt returns for a non-empty plaintext is VALID-shaped and decodable, and decodes to
    the plaintext when its characters are in 0..255"""
    TAGS.append("T-juniper")
    from netconan.utils import juniper_secrets as js
    alpha = "".join(js.NUM_ALPHA)
    valid = re.compile(r"\$9\$[%s]{4,}\Z" % re.escape(alpha))
    cands = ["", "$9$", "$9$abc", "$9$abcd", "$9$abcd\n", "$9$ab!d", "x$9$abcd", "$9$" + "Q" * 9]
    for _ in range(300 if QUICK else 5000):
        k = RNG.randrange(0, 14)
        cands.append("$9$" + "".join(RNG.choice(alpha + "!\n ") if RNG.random() < 0.1 else RNG.choice(alpha) for _ in range(k)))
    for c in cands:
        ok()
        try:
            js.juniper_decrypt(c)
            if not valid.match(c):
                bad("T-juniper", c, "decrypt accepted a string that is not VALID-shaped")
        except ValueError:
            pass
        except Exception as e:  # noqa
            bad("T-juniper", c, "decrypt raised %s" % type(e).__name__)
    salts = list(alpha[::7]) + [None, "", "_x", "é"]
    for salt in salts:
        for _ in range(20 if QUICK else 300):
            n = RNG.randrange(1, 12)
            hi = 256 if RNG.random() < 0.8 else 0x3000
            p_ = "".join(chr(RNG.randrange(hi)) for _ in range(n))
            ok()
            try:
                c = js.juniper_nonrandom_encrypt(p_, salt)
            except Exception as e:  # noqa
                if all(ord(ch) < 256 for ch in p_):
                    bad("T-juniper", (p_, salt), "encrypt raised %s" % type(e).__name__)
                continue
            if not valid.match(c):
                bad("T-juniper", (p_, salt), "encrypt result not VALID-shaped: %r" % c)
                continue
            try:
                d_ = js.juniper_decrypt(c)
            except Exception as e:  # noqa
                bad("T-juniper", (p_, salt), "encrypt result not decodable: %s" % type(e).__name__)
                continue
            if all(ord(ch) < 256 for ch in p_) and d_ != p_:
                bad("T-juniper", (p_, salt), "round trip differs")


def t_default_regexes_trusted():
    """TRUSTED: generate_default_sensitive_item_regexes returns groups of (compiled pattern, group number or None)"""
    TAGS.append("T-default-regexes")
    from netconan import sensitive_item_removal as sir
    regs = sir.generate_default_sensitive_item_regexes()
    ok()
    if not isinstance(regs, list) or not regs:
        bad("T-default-regexes", type(regs), "not a non-empty list")
        return
    # the function is plumbing over four finite tables: its result is checked completely against them
    from netconan import default_pwd_regexes as dpr
    tables = [("aws_regexes", getattr(sir, "aws_regexes", None)),
              ("default_pwd_line_regexes", getattr(dpr, "default_pwd_line_regexes", getattr(sir, "default_pwd_line_regexes", None))),
              ("default_com_line_regexes", getattr(dpr, "default_com_line_regexes", getattr(sir, "default_com_line_regexes", None))),
              ("extra_password_regexes", getattr(sir, "extra_password_regexes", None))]
    if all(t is not None for _, t in tables):
        expect = [g for _, t in tables for g in t]
        ok()
        if len(regs) != len(expect):
            bad("T-default-regexes", (len(regs), len(expect)), "number of regex groups differs from the four tables")
        else:
            for got_g, exp_g in zip(regs, expect):
                ok()
                if [(c.pattern, n) for c, n in got_g] != [(sir._ALLOWED_REGEX_PREFIX + r_, n) for r_, n in exp_g]:
                    bad("T-default-regexes", [c.pattern for c, n in got_g][:1], "group is not prefix + table entry, in table order")
                    break
    else:
        bad("T-default-regexes", [n for n, t in tables if t is None], "regex table not found")
    for grp in regs:
        for item in grp:
            ok()
            if not (isinstance(item, tuple) and len(item) == 2 and isinstance(item[0], re.Pattern)
                    and (item[1] is None or (isinstance(item[1], int) and 0 <= item[1] <= item[0].groups))):
                bad("T-default-regexes", item, "not a (pattern, group number) pair")


for t in (t_md5, t_format, t_bidict, t_ipaddress, t_dropzeros, t_resub, t_strws, t_hex_passlib, t_os_dict, t_regexgroups,
          t_juniper_trusted, t_default_regexes_trusted):
    try:
        t()
    except Exception as e:  # noqa
        bad(t.__name__, "", "%s: %s" % (type(e).__name__, e))
print(json.dumps({"evaluations": EVALS[0], "distinct_nontrivial": EVALS[0], "failures": FAILS, "tags": TAGS,
                  "bound": "see pyvc/rt/rt_conformance.py", "rule": "each evaluation is one library call compared with the assumed contract"}))
