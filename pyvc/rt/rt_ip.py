"""Bounded stand-in / witness search for the IP properties (C01-C05, C17) on the REAL code.
Runs under the repo's interpreter with PYTHONPATH=<working tree>.  Labelled *bounded*: never counted as proved.

args (JSON, argv[1]): {"property": "C01", "tier": "quick"|"thorough", "seed": int, "replay": {...}?}
prints one JSON line: {evaluations, distinct_nontrivial, failures:[{tag, input, detail, obligation_hint}], samples, bound, rule}
"""
import io
import itertools
import json
import logging
import random
import sys

logging.disable(logging.CRITICAL)

from netconan import ip_anonymization as ipa  # noqa: E402
from netconan.ip_anonymization import IpAnonymizer, IpV6Anonymizer, _BaseIpAnonymizer, anonymize_ip_addr  # noqa: E402
import ipaddress  # noqa: E402

ARGS = json.loads(sys.argv[1])
TIER = ARGS.get("tier", "quick")
RNG = random.Random(ARGS.get("seed", 0))
FAILS = []
SAMPLES = []
EVALS = [0]
DISTINCT = set()


def fail(tag, inp, detail, hint=""):
    if sum(1 for f in FAILS if f["tag"] == tag) < 3 and len(FAILS) < 12:
        FAILS.append({"tag": tag, "input": inp, "detail": str(detail)[:300], "obligation_hint": hint})


LAST = [None]


def note(case):
    LAST[0] = repr(case)[:300]
    EVALS[0] += 1
    DISTINCT.add(case if isinstance(case, (str, int, tuple)) else repr(case))
    if len(SAMPLES) < 3:
        SAMPLES.append(case if isinstance(case, (str, int, list)) else repr(case))


class Tiny(_BaseIpAnonymizer):
    """The real base class at a small width (the scheme is generic in `length`)."""

    def __init__(self, salt, length, table, preserve_suffix=None, seeds=()):
        def salter(s, head):
            return table.get(head, 0)
        super().__init__(salt, length, salter=salter, preserve_suffix=preserve_suffix)
        for p in seeds:  # same seeding statements as IpAnonymizer.__init__
            for position in range(len(p)):
                value = p[:position]
                self.cache[value + "0"] = value + "0"
                self.cache[value + "1"] = value + "1"

    @classmethod
    def get_addr_pattern(cls):
        return None

    @classmethod
    def make_addr(cls, s):
        return int(s)

    @classmethod
    def make_addr_from_int(cls, i):
        return i

    def should_anonymize(self, i):
        return True


def cpl(a, b, L):
    x = a ^ b
    return L if x == 0 else L - x.bit_length()


def heads(w):
    return ["".join(t) for n in range(w) for t in itertools.product("01", repeat=n)]


def tables(w, limit):
    hs = heads(w)
    if 2 ** len(hs) <= limit:
        for bits in itertools.product((0, 1), repeat=len(hs)):
            yield dict(zip(hs, bits))
    else:
        for _ in range(limit):
            yield {h: RNG.randint(0, 1) for h in hs}


def tiny_configs():
    wmax = 4 if TIER == "quick" else 5
    lim = 64 if TIER == "quick" else 2000
    for w in range(1, wmax + 1):
        seedsets = [(), ("",), ("0",), ("1" * w,), ("0", "11")] if w >= 2 else [(), ("0",)]
        for tab in tables(w, lim):
            for s in range(0, w + 1):
                for seeds in seedsets:
                    seeds = tuple(p for p in seeds if len(p) <= w)
                    yield w, tab, s, seeds


def mk_tiny(w, tab, s, seeds):
    return Tiny("salt", w, tab, preserve_suffix=s, seeds=seeds)


# ------------------------------------------------------------------------------ property checks
def c01_tiny():
    for w, tab, s, seeds in tiny_configs():
        an = mk_tiny(w, tab, s, seeds)
        img = [an.anonymize(a) for a in range(2 ** w)]
        note((w, tuple(sorted(tab.items())), s, seeds))
        if sorted(img) != list(range(2 ** w)):
            fail("C01.perm", {"width": w, "table": tab, "suffix": s, "seeds": seeds, "images": img},
                 "not a permutation", "anonymize#post")
            continue
        for a in range(2 ** w):
            for b in range(a + 1, 2 ** w):
                if cpl(a, b, w) != cpl(img[a], img[b], w):
                    fail("C01.cpl", {"width": w, "table": tab, "suffix": s, "seeds": seeds, "a": a, "b": b,
                                     "img_a": img[a], "img_b": img[b]},
                         "common prefix %d -> %d" % (cpl(a, b, w), cpl(img[a], img[b], w)), "anonymize#post")
                    break


REAL_CFG = [
    dict(salt="", suffix=None, prefixes=None, addrs=None),
    dict(salt="s1", suffix=8, prefixes=None, addrs=None),
    dict(salt="é中", suffix=0, prefixes=[], addrs=None),
    dict(salt="x", suffix=32, prefixes=None, addrs=None),
    dict(salt="x", suffix=31, prefixes=["0.0.0.0/0"], addrs=None),
    dict(salt="y", suffix=12, prefixes=["10.1.2.3/32", "10.0.0.0/8", "10.1.0.0/16"], addrs=["192.168.0.0/16", "8.8.8.8"]),
    dict(salt="z", suffix=1, prefixes=["128.0.0.0/1"], addrs=["10.0.0.0/8", "172.16.0.0/12", "192.168.0.0/16"]),
    # nested prefixes sharing a base address, both orders; preserved blocks nested in default prefixes
    dict(salt="n1", suffix=4, prefixes=["10.0.0.0/8", "10.0.0.0/16", "10.0.0.0/24"], addrs=None),
    dict(salt="n2", suffix=0, prefixes=["10.0.0.0/24", "10.0.0.0/8"], addrs=["10.0.0.0/30"]),
    dict(salt="n3", suffix=8, prefixes=None, addrs=["192.168.0.0/24", "10.0.0.0/24", "172.16.0.0/16", "0.0.0.0/8"]),
    # default prefixes together with a preserved block far away from them
    dict(salt="n4", suffix=8, prefixes=None, addrs=["203.0.113.0/24"]),
    dict(salt="n5", suffix=0, prefixes=None, addrs=["8.8.8.8"]),
]


def mk4(c):
    pp = None if c["prefixes"] is None else list(c["prefixes"])
    pa = None if c["addrs"] is None else list(c["addrs"])
    return IpAnonymizer(c["salt"], pp, pa, preserve_suffix=c["suffix"])


def mk6(c):
    s = c["suffix"]
    return IpV6Anonymizer(c["salt"], preserve_suffix=None if s is None else s)


def pairs_with_cpl(L, n):
    for k in range(0, L + 1):
        for _ in range(n):
            a = RNG.getrandbits(L)
            if k == L:
                yield k, a, a
                continue
            b = a ^ (1 << (L - 1 - k))           # differ exactly at bit k
            low = RNG.getrandbits(L - 1 - k) if L - 1 - k > 0 else 0
            b = (b >> (L - 1 - k) << (L - 1 - k)) | low
            yield k, a, b


def c01_real():
    n = 2 if TIER == "quick" else 20
    for c in REAL_CFG:
        for mk, L in ((mk4, 32), (mk6, 128)):
            an = mk(c)
            for k, a, b in pairs_with_cpl(L, n):
                ia, ib = an.anonymize(a), an.anonymize(b)
                note((L, c["salt"], c["suffix"], k, a, b))
                if cpl(ia, ib, L) != k:
                    fail("C01.cpl", {"family": L, "config": c, "a": a, "b": b, "img_a": ia, "img_b": ib},
                         "common prefix %d -> %d" % (k, cpl(ia, ib, L)), "anonymize#post")


def c02():
    for w, tab, s, seeds in tiny_configs():
        an = mk_tiny(w, tab, s, seeds)
        img = [an.anonymize(a) for a in range(2 ** w)]
        fresh = mk_tiny(w, tab, s, seeds)
        note((w, tuple(sorted(tab.items())), s, seeds))
        for a in range(2 ** w):
            if fresh.deanonymize(img[a]) != a:
                fail("C02.undo", {"width": w, "table": tab, "suffix": s, "seeds": seeds, "a": a, "img": img[a],
                                  "undone": fresh.deanonymize(img[a])}, "deanonymize(anonymize(a)) != a",
                     "deanonymize#post")
                break
        fresh2 = mk_tiny(w, tab, s, seeds)
        for y in range(2 ** w):
            x = fresh2.deanonymize(y)
            if mk_tiny(w, tab, s, seeds).anonymize(x) != y:
                fail("C02.redo", {"width": w, "table": tab, "suffix": s, "seeds": seeds, "y": y, "x": x},
                     "anonymize(deanonymize(y)) != y", "deanonymize#post")
                break
    n = 1 if TIER == "quick" else 10
    for c in REAL_CFG:
        for mk, L in ((mk4, 32), (mk6, 128)):
            an, un = mk(c), mk(c)
            for k, a, b in pairs_with_cpl(L, n):
                note((L, c["salt"], c["suffix"], a))
                if un.deanonymize(an.anonymize(a)) != a:
                    fail("C02.undo", {"family": L, "config": c, "a": a}, "fresh-instance undo differs",
                         "deanonymize#post")
    # file level
    lines = ["ip address 11.22.33.44 255.255.255.0\n", " neighbor 2001:db8::1 remote-as 65000 1.2.3.4/24\n"]
    for c in REAL_CFG[:3]:
        a4, a6, u4, u6 = mk4(c), mk6(c), mk4(c), mk6(c)
        for ln in lines:
            out = anonymize_ip_addr(a4, anonymize_ip_addr(a6, ln))
            back = anonymize_ip_addr(u4, anonymize_ip_addr(u6, out, True), True)
            note(("file", c["salt"], ln))
            exp = ln.replace("2001:db8::1", str(ipaddress.IPv6Address("2001:db8::1")))
            if back != exp:
                fail("C02.file", {"config": c, "line": ln, "anon": out, "undone": back}, "undo did not restore the line",
                     "_anonymize_match")


def c02_v6_special():
    """file-level undo for IPv6 addresses whose IMAGE looks special (link-local, unique-local, multicast, loopback,
    documentation, mapped ...): IPv6 has no exclusions, so undo(anonymize(line)) is the canonical line"""
    blocks = ["fe80::/10", "fc00::/7", "ff00::/8", "::/128", "::1/128", "2001:db8::/32", "::ffff:0:0/96", "64:ff9b::/96",
              "2002::/16", "fec0::/10", "100::/64"]
    for c in REAL_CFG[:4]:
        an = mk6(c)
        pts = []
        for b in blocks:
            net = ipaddress.ip_network(b)
            for _ in range(2 if TIER == "quick" else 20):
                y = int(net.network_address) | (RNG.getrandbits(128 - net.prefixlen) if net.prefixlen < 128 else 0)
                pts.append(mk6(c).deanonymize(y))        # an ordinary address whose image lies in the block
                pts.append(y)                            # and a member of the block itself
        pts += [RNG.getrandbits(128) for _ in range(40 if TIER == "quick" else 1000)]
        for x in pts:
            txt = str(ipaddress.IPv6Address(x))
            line = "ipv6 address %s/64 x\n" % txt
            note(("v6-special", c["salt"], c["suffix"], x))
            out = anonymize_ip_addr(an, line)
            back = anonymize_ip_addr(mk6(c), out, True)
            img = str(ipaddress.IPv6Address(mk6(c).anonymize(x)))
            if out != "ipv6 address %s/64 x\n" % img:
                fail("C02.v6-text", {"config": c, "line": line, "anon": out, "expected_image": img},
                     "IPv6 address not replaced by its image", "_anonymize_match")
            elif back != line:
                fail("C02.v6-undo", {"config": c, "line": line, "anon": out, "undone": back},
                     "undo did not restore the IPv6 address", "_anonymize_match")


def c02_mask_images():
    """addresses whose image is netmask-shaped: either the text keeps that image (then undo deliberately leaves it
    alone - the exclusion the statement allows) or, whatever else is written instead, undo must restore the original"""
    ms = masks()
    lines = []
    for c in REAL_CFG[:3]:
        an = mk4(c)
        for m in ms[:: (4 if TIER == "quick" else 1)]:
            x = mk4(c).deanonymize(m)
            if x in set(ms) or not an.should_anonymize(x):
                continue
            txt = str(ipaddress.IPv4Address(x))
            line = "peer %s up\n" % txt
            note(("mask-image", c["salt"], c["suffix"], x))
            out = anonymize_ip_addr(an, line)
            written = out.split()[1]
            if int(ipaddress.IPv4Address(written)) in set(ms):
                continue                      # image is mask-shaped: excluded by the statement
            back = anonymize_ip_addr(mk4(c), out, True)
            if back != line:
                fail("C02.file", {"config": c, "line": line, "anon": out, "undone": back},
                     "undo did not restore an address whose written image is not mask-shaped", "_anonymize_match")


def c03():
    cfgs = list(tiny_configs())
    RNG.shuffle(cfgs)
    for w, tab, s, seeds in cfgs[: (300 if TIER == "quick" else 5000)]:
        ref = {}
        for a in range(2 ** w):
            ref[a] = mk_tiny(w, tab, s, seeds).anonymize(a)
        inv = {v: k for k, v in ref.items()}
        an = mk_tiny(w, tab, s, seeds)
        hist = []
        for _ in range(3 * 2 ** w):
            x = RNG.randrange(2 ** w)
            if RNG.random() < 0.5:
                hist.append(("anon", x))
                r = an.anonymize(x)
                ok = r == ref[x]
            else:
                hist.append(("undo", x))
                r = an.deanonymize(x)
                ok = r == inv[x]
            if not ok:
                fail("C03.history", {"width": w, "table": tab, "suffix": s, "seeds": seeds, "history": hist, "got": r},
                     "result depends on request history", "WF")
                break
        note((w, tuple(sorted(tab.items())), s, seeds, tuple(hist[:6])))


def c03_text():
    """text-level API on the real classes: one object serving interleaved anonymize / undo requests must answer
    each exactly like a fresh object does"""
    lines4 = ["ntp server 8.8.4.4\n", "ip address 11.22.33.44 255.255.255.0\n", "peer 100.64.3.9/30 x 11.22.33.44\n"]
    lines6 = ["neighbor 2001:db8::1 remote-as 65000\n", "ipv6 route 2001:db8:aa::/48 fe80::1\n"]
    for c in REAL_CFG[:4]:
        for mk, lines in ((mk4, lines4), (mk6, lines6)):
            shared = mk(c)
            hist = []
            for _ in range(8 if TIER == "quick" else 60):
                ln, undo = RNG.choice(lines), RNG.random() < 0.5
                hist.append((ln, undo))
                got = anonymize_ip_addr(shared, ln, undo)
                exp = anonymize_ip_addr(mk(c), ln, undo)
                note(("text-history", c["salt"], ln, undo, len(hist)))
                if got != exp:
                    fail("C03.text-history", {"config": c, "history": hist, "got": got, "fresh": exp},
                         "answer depends on earlier anonymize/undo requests", "_anonymize_match")
                    break


def in_net(ip, net):
    return ipaddress.ip_address(ip) in net


def c04():
    # tiny: seeded paths are preserved both ways; suffix bits preserved and do not influence the head
    for w, tab, s, seeds in tiny_configs():
        an = mk_tiny(w, tab, s, seeds)
        img = [an.anonymize(a) for a in range(2 ** w)]
        note((w, tuple(sorted(tab.items())), s, seeds))
        for a in range(2 ** w):
            ab, ib = format(a, "0%db" % w), format(img[a], "0%db" % w)
            if s and ab[w - s:] != ib[w - s:]:
                fail("C04.hostbits", {"width": w, "table": tab, "suffix": s, "seeds": seeds, "a": a, "img": img[a]},
                     "preserved host bits changed", "anonymize#post")
            for p in seeds:
                if (ab[:len(p)] == p) != (ib[:len(p)] == p):
                    fail("C04.prefix", {"width": w, "table": tab, "suffix": s, "seeds": seeds, "a": a, "img": img[a],
                                        "prefix": p}, "preserved prefix not respected", "IpAnonymizer.__init__")
            if s:
                for b in range(2 ** w):
                    bb = format(b, "0%db" % w)
                    if bb[:w - s] == ab[:w - s] and format(img[b], "0%db" % w)[:w - s] != ib[:w - s]:
                        fail("C04.headindep", {"width": w, "table": tab, "suffix": s, "a": a, "b": b},
                             "leading bits depend on host bits", "anonymize#post")
    n = 40 if TIER == "quick" else 1000
    for c in REAL_CFG:
        an = mk4(c)
        plist = list(IpAnonymizer.DEFAULT_PRESERVED_PREFIXES) if c["prefixes"] is None else list(c["prefixes"])
        plist = plist + list(c["addrs"] or [])
        nets = [ipaddress.ip_network(p) for p in plist]
        pts = [RNG.getrandbits(32) for _ in range(n)]
        for net in nets:
            base = int(net.network_address)
            hb = 32 - net.prefixlen
            pts += [base, base | ((1 << hb) - 1), (base - 1) % 2 ** 32, (base + (1 << hb)) % 2 ** 32]
            pts += [base | RNG.getrandbits(hb) if hb else base for _ in range(3)]
        for a in pts:
            ia = an.anonymize(a)
            note(("v4", c["salt"], c["suffix"], a))
            for net in nets:
                if in_net(a, net) != in_net(ia, net):
                    fail("C04.prefix", {"config": c, "a": a, "img": ia, "net": str(net)},
                         "inside/outside of preserved prefix not kept", "IpAnonymizer.__init__")
            s = c["suffix"] or 0
            if s and (a ^ ia) & ((1 << s) - 1):
                fail("C04.hostbits", {"config": c, "a": a, "img": ia}, "host bits changed", "anonymize#post")
        a6 = mk6(c)
        s = c["suffix"] or 0
        for _ in range(n // 4):
            a = RNG.getrandbits(128)
            ia = a6.anonymize(a)
            note(("v6", c["salt"], s, a))
            if s and (a ^ ia) & ((1 << s) - 1):
                fail("C04.hostbits", {"config": c, "a": a, "img": ia, "family": 6}, "host bits changed",
                     "anonymize#post")
            if s:
                b = (a >> s << s) | RNG.getrandbits(s)
                if (IpV6Anonymizer(c["salt"], preserve_suffix=s).anonymize(b) >> s) != (ia >> s):
                    fail("C04.headindep", {"config": c, "a": a, "b": b, "family": 6},
                         "leading bits depend on host bits", "anonymize#post")
    # defaults
    exp = ("0.0.0.0/1", "128.0.0.0/2", "192.0.0.0/3", "224.0.0.0/4", "10.0.0.0/8", "172.16.0.0/12", "192.168.0.0/16")
    if tuple(IpAnonymizer.DEFAULT_PRESERVED_PREFIXES) != exp:
        fail("C04.defaults", {"got": list(IpAnonymizer.DEFAULT_PRESERVED_PREFIXES)}, "default preserved prefixes differ",
             "DEFAULT_PRESERVED_PREFIXES")


def masks():
    out = []
    for a in range(0, 33):
        out.append((2 ** 32 - 2 ** (32 - a)) % 2 ** 32)
        out.append(2 ** a - 1)
    return sorted(set(out))


def c05():
    ms = masks()
    an = IpAnonymizer("salt5", None, ["10.0.0.0/8", "172.16.0.0/12", "192.168.0.0/16", "8.8.8.8"], preserve_suffix=8)
    mset = set(ms)
    for m in ms:
        txt = str(ipaddress.IPv4Address(m))
        line = "ip address %s mask %s\n" % (txt, txt)
        note(("mask", m))
        if anonymize_ip_addr(an, line) != line:
            fail("C05.mask", {"line": line, "out": anonymize_ip_addr(an, line)}, "mask-shaped value changed", "_is_mask")
        if an._is_mask(m) is not True:
            fail("C05.mask", {"value": m}, "_is_mask false on a mask", "_is_mask")
        for bit in range(32):
            p = m ^ (1 << bit)
            note(("perturbed", p))
            if bool(an._is_mask(p)) != (p in mset):
                fail("C05.mask", {"value": p}, "_is_mask wrong on perturbed mask", "_is_mask")
    nets = [ipaddress.ip_network(n) for n in ["10.0.0.0/8", "172.16.0.0/12", "192.168.0.0/16", "8.8.8.8/32"]]
    for _ in range(300 if TIER == "quick" else 5000):
        net = RNG.choice(nets)
        hb = 32 - net.prefixlen
        a = int(net.network_address) | (RNG.getrandbits(hb) if hb else 0)
        txt = " 0%s/24 " % ipaddress.IPv4Address(a) if RNG.random() < 0.3 else "x %s," % ipaddress.IPv4Address(a)
        note(("preserved", a))
        if anonymize_ip_addr(an, txt) != txt:
            fail("C05.preserved", {"line": txt, "out": anonymize_ip_addr(an, txt)}, "preserved address changed",
                 "should_anonymize")
        b = RNG.getrandbits(32)
        if not any(in_net(b, n) for n in nets):
            ib = an.anonymize(b)
            if any(in_net(ib, n) for n in nets):
                fail("C05.collide", {"a": b, "img": ib}, "outside address mapped into a preserved network",
                     "IpAnonymizer.__init__")


def c05_nested():
    """overlapping / nested preserved networks: every member of any listed network stays as written"""
    cfgs = [["10.0.0.0/8", "10.1.0.0/16"], ["10.1.0.0/16", "10.0.0.0/8", "192.168.1.1"], ["172.16.0.0/24", "172.16.0.0/12"],
            ["10.0.0.0/8", "172.16.0.0/12", "192.168.0.0/16", "10.1.0.0/16", "172.16.5.0/24", "192.168.1.1"],
            ["192.168.1.1", "192.168.0.0/16", "192.168.2.0/24"]]
    for nets_txt in cfgs:
        for hb in (0, 8):
            an = IpAnonymizer("nest", None, list(nets_txt), preserve_suffix=hb)
            nets = [ipaddress.ip_network(n) for n in nets_txt]
            pts = []
            for net in nets:
                base, size = int(net.network_address), net.num_addresses
                pts += [base, base + size - 1, base + size // 2]
                pts += [base + RNG.randrange(size) for _ in range(6 if TIER == "quick" else 60)]
                # just after every inner block that lies inside this one
                for inner in nets:
                    e = int(inner.network_address) + inner.num_addresses
                    if base <= e < base + size:
                        pts += [e, e + 1, min(e + 65536, base + size - 1)]
            for a in pts:
                txt = "x %s y" % ipaddress.IPv4Address(a)
                note(("nested", tuple(nets_txt), hb, a))
                out = anonymize_ip_addr(an, txt)
                if out != txt:
                    fail("C05.preserved-nested", {"preserve_networks": nets_txt, "host_bits": hb, "line": txt, "out": out},
                         "address inside a preserved network changed", "should_anonymize")


def c_cli_equiv(tag):
    """the command line hands the IP options to the library unchanged: for several option sets the files written by
    main() equal what FileAnonymizer gives for the same options passed as lists (same salt)"""
    import os, shutil, tempfile
    from netconan import netconan as cli
    from netconan.anonymize_files import FileAnonymizer
    text = ("ip address 10.1.2.3 255.255.255.0\nip address 58.63.140.3 0.0.0.255\nneighbor 172.16.9.9 peer 11.22.33.44\n"
            "ip route 192.168.7.1 203.0.113.77 198.51.100.9\nipv6 address 2001:db8::1/64 fe80::1\nhost 8.8.8.8 224.0.0.5 240.1.2.3\n")
    classes = "0.0.0.0/1,128.0.0.0/2,192.0.0.0/3,224.0.0.0/4"
    cases = [(["--preserve-private-addresses"], dict(preserve_networks=list(IpAnonymizer.RFC_1918_NETWORKS))),
             (["--preserve-private-addresses", "--preserve-prefixes", classes],
              dict(preserve_networks=list(IpAnonymizer.RFC_1918_NETWORKS), preserve_prefixes=classes.split(","))),
             (["--preserve-addresses", "203.0.113.0/24,8.8.8.8", "--preserve-private-addresses", "--preserve-prefixes", classes],
              dict(preserve_networks=["203.0.113.0/24", "8.8.8.8"] + list(IpAnonymizer.RFC_1918_NETWORKS),
                   preserve_prefixes=classes.split(","))),
             (["--preserve-addresses", "198.51.100.0/24", "--preserve-host-bits", "0"],
              dict(preserve_networks=["198.51.100.0/24"], hb=0)),
             (["--preserve-prefixes", "10.0.0.0/8", "--preserve-host-bits", "12"], dict(preserve_prefixes=["10.0.0.0/8"], hb=12))]
    for argv, lib_kw in cases:
        tmp = tempfile.mkdtemp(prefix="rtcli_")
        try:
            os.makedirs(os.path.join(tmp, "in"))
            with open(os.path.join(tmp, "in", "r.cfg"), "w") as f:
                f.write(text)
            note((tag, "cli", tuple(argv)))
            cli.main(["-i", os.path.join(tmp, "in"), "-o", os.path.join(tmp, "out"), "-a", "-s", "cliSalt"] + argv)
            got = open(os.path.join(tmp, "out", "r.cfg")).read()
            hb = lib_kw.pop("hb", 8)
            kw = dict(preserve_prefixes=lib_kw.get("preserve_prefixes", list(IpAnonymizer.DEFAULT_PRESERVED_PREFIXES)),
                      preserve_networks=lib_kw.get("preserve_networks"))
            fa = FileAnonymizer(anon_pwd=False, anon_ip=True, salt="cliSalt", preserve_suffix_v4=hb, preserve_suffix_v6=hb, **kw)
            o = io.StringIO()
            fa.anonymize_io(io.StringIO(text), o)
            if got != o.getvalue():
                fail(tag, {"argv": argv, "cli_output": got, "library_output": o.getvalue()},
                     "the command line and the library disagree for the same IP options", "main")
        finally:
            shutil.rmtree(tmp, ignore_errors=True)


def c_text_consistency(tag):
    """What is written for an address in text equals the integer mapping, except for masks and members of
    preserved networks (left as written); block boundaries and their neighbours in particular."""
    ms = set(masks())
    for c in REAL_CFG:
        an = mk4(c)
        ref = mk4(c)
        nets = [ipaddress.ip_network(n) for n in (c["addrs"] or [])]
        pts = [RNG.getrandbits(32) for _ in range(20 if TIER == "quick" else 400)]
        allnets = nets + [ipaddress.ip_network(p) for p in (c["prefixes"] if c["prefixes"] is not None
                                                            else IpAnonymizer.DEFAULT_PRESERVED_PREFIXES)]
        for net in allnets:
            base, size = int(net.network_address), net.num_addresses
            pts += [x % 2 ** 32 for x in (base - 1, base, base + 1, base + size - 1, base + size, base + size + 1)]
        for a in pts:
            txt = str(ipaddress.IPv4Address(a))
            out = anonymize_ip_addr(an, "x %s y" % txt)
            note((tag, c["salt"], c["suffix"], a))
            keep = a in ms or any(ipaddress.IPv4Address(a) in n for n in nets)
            exp = txt if keep else str(ipaddress.IPv4Address(ref.anonymize(a)))
            if out != "x %s y" % exp:
                fail(tag, {"config": c, "address": txt, "output": out, "expected": "x %s y" % exp},
                     "text-level replacement differs from the address mapping / preservation rule", "should_anonymize")


def c17():
    for c in REAL_CFG:
        a4, a6 = mk4(c), mk6(c)
        seen = {}
        text = []
        for _ in range(30 if TIER == "quick" else 400):
            a = RNG.getrandbits(32)
            ln = "ip %s x %s\n" % (ipaddress.IPv4Address(a), ipaddress.IPv6Address(RNG.getrandbits(128)))
            text.append(ln)
        # a second file mixes in addresses that are images of earlier ones (an already-anonymized config)
        imgs = []
        for ln in text[:10]:
            pre4, pre6 = mk4(c), mk6(c)
            imgs.append(anonymize_ip_addr(pre4, anonymize_ip_addr(pre6, ln)))
        text = imgs + text + imgs
        for ln in text:
            o = anonymize_ip_addr(a4, anonymize_ip_addr(a6, ln))
            for w_in, w_out in zip(ln.split(), o.split()):
                if w_in != w_out:
                    seen[w_in] = w_out
        buf = io.StringIO()
        a4.dump_to_file(buf)
        a6.dump_to_file(buf)
        rows = [r.split("\t") for r in buf.getvalue().splitlines()]
        note(("dump", c["salt"], c["suffix"], len(rows)))
        d = dict((r[0], r[1]) for r in rows)
        if len(d) != len(rows) or len(set(r[1] for r in rows)) != len(rows):
            fail("C17.dup", {"config": c}, "duplicate original or replacement in dump", "dump_to_file")
        for k, v in seen.items():
            if d.get(k) != v:
                fail("C17.missing", {"config": c, "addr": k, "used": v, "dumped": d.get(k)},
                     "replaced address missing from dump or different", "dump_to_file")
        fresh4, fresh6 = mk4(c), mk6(c)
        for k, v in d.items():
            ip = ipaddress.ip_address(k)
            f = fresh4 if ip.version == 4 else fresh6
            if str(f.make_addr_from_int(f.anonymize(int(ip)))) != v:
                fail("C17.wrong", {"config": c, "addr": k, "dumped": v}, "dumped pair disagrees with mapping function",
                     "dump_to_file")


CHECKS = {"C01": [c01_tiny, c01_real, lambda: c_text_consistency("C01.text"), lambda: c_cli_equiv("C01.cli")], "C02": [c02, c02_v6_special, c02_mask_images], "C03": [c03, c03_text], "C04": [c04, lambda: c_cli_equiv("C04.cli")],
          "C05": [c05, c05_nested, lambda: c_text_consistency("C05.text"), lambda: c_cli_equiv("C05.cli")], "C17": [c17]}
BOUNDS = {
    "C01": "5 IP option sets through main() compared with the library given the same options as lists; real base class at widths 1..4 (quick) / 1..5 (thorough), salter truth tables (all for width<=3), all host-bit counts, "
           "5 seed sets, all address pairs; real IpAnonymizer/IpV6Anonymizer: 7 configurations x every common-prefix length x 2/20 pairs",
    "C02": "same tiny space with fresh-instance undo; 12 real configurations; 2 text lines x 3 configurations for file-level undo; "
           "4 configurations x (11 special IPv6 blocks x 2/20 members and pre-images + 40/1000 random addresses) anonymize + fresh undo at text level; pre-images of 16/62 masks x 3 configurations",
    "C03": "300/5000 tiny configurations x random anonymize/undo histories of length 3*2^w vs fresh instance per request; "
           "text-level API: 4 real configurations x 2 families x 8/60 interleaved anonymize/undo lines vs fresh instance",
    "C04": "5 IP option sets through main() compared with the library given the same options as lists; tiny space (prefix both ways, host bits, head independence); 12 real configurations x boundary and random addresses, both families",
    "C05": "5 IP option sets through main() compared with the library given the same options as lists; all 64 masks x 32 one-bit perturbations through the real _is_mask; 300/5000 preserved and outside addresses; "
           "5 nested/overlapping preserved-network lists x 2 host-bit counts x boundary, post-inner-block and random members",
    "C17": "12 configurations x 30/400 generated lines, dump parsed back and compared with the applied replacements and a fresh mapping",
}


def guarded(f):
    """An exception escaping the code under test is a concrete failure of the property, not a crash of the check."""
    import traceback
    try:
        f()
    except Exception as e:  # noqa
        tb = traceback.extract_tb(sys.exc_info()[2])
        where = [fr for fr in tb if "netconan" in fr.filename]
        loc = "%s:%d" % (where[-1].filename.split("/")[-1], where[-1].lineno) if where else ""
        fail(ARGS["property"] + ".exception", {"check": getattr(f, "__name__", "check"), "last_case": LAST[0]},
             "%s: %s at %s" % (type(e).__name__, e, loc), "safe")


def main():
    pid = ARGS["property"]
    if ARGS.get("replay"):
        w = ARGS["replay"]
        # replay = rerun the whole (deterministic) bounded check and report failures with the same tag
        for f in CHECKS.get(pid, []):
            guarded(f)
        fails = [x for x in FAILS if x["tag"] == w.get("tag")] or FAILS
        print(json.dumps({"evaluations": EVALS[0], "failures": fails}))
        return
    for f in CHECKS[pid]:
        guarded(f)
    print(json.dumps({"evaluations": EVALS[0], "distinct_nontrivial": len(DISTINCT), "failures": FAILS,
                      "samples": SAMPLES, "bound": BOUNDS[pid],
                      "rule": "deterministic enumeration/generation (seeded); a case is one configuration+input tuple; "
                              "distinct = distinct tuples"}, default=str))


main()
