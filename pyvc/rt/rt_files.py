"""Bounded stand-ins / witness search for secrets, words, line structure, determinism, totality, composition,
files and the command line (C07-C10, C12-C16, C19) on the REAL code.  Labelled bounded, never counted as proved.
args (JSON, argv[1]): {"property": "...", "tier": "quick"|"thorough", "seed": int, "replay": {...}?}
"""
import io
import itertools
import json
import logging
import os
import random
import re
import shutil
import subprocess
import sys
import tempfile
import traceback

from netconan import anonymize_files as af
from netconan.anonymize_files import FileAnonymizer, anonymize_files
from netconan import sensitive_item_removal as sir
from netconan.ip_anonymization import IpAnonymizer, IpV6Anonymizer, anonymize_ip_addr
from netconan.utils import juniper_secrets as js
from netconan import netconan as cli

ARGS = json.loads(sys.argv[1])
TIER = ARGS.get("tier", "quick")
RNG = random.Random(ARGS.get("seed", 0))
FAILS, SAMPLES, EVALS, DISTINCT, LAST = [], [], [0], set(), [None]
QUICK = TIER == "quick"


def fail(tag, inp, detail, hint=""):
    if sum(1 for f in FAILS if f["tag"] == tag) < 3 and len(FAILS) < 12:
        FAILS.append({"tag": tag, "input": inp, "detail": str(detail)[:400], "obligation_hint": hint})


def note(case):
    LAST[0] = repr(case)[:300]
    EVALS[0] += 1
    DISTINCT.add(case if isinstance(case, (str, int, tuple)) else repr(case))
    if len(SAMPLES) < 3:
        SAMPLES.append(case if isinstance(case, (str, int, list)) else repr(case))


class LogCap(logging.Handler):
    def __init__(self):
        super().__init__(level=logging.INFO)
        self.records = []

    def emit(self, record):
        self.records.append((record.levelname, record.getMessage()))


def run_io(text, **kw):
    fa = FileAnonymizer(**kw)
    out = io.StringIO()
    fa.anonymize_io(io.StringIO(text), out)
    return out.getvalue()


# ------------------------------------------------------------------------------------------------ secrets
def type7(p, salt=3):
    from passlib.hash import cisco_type7
    return cisco_type7.using(salt=salt).hash(p)


def md5c(p, salt):
    from passlib.hash import md5_crypt
    return md5_crypt.using(salt=salt).hash(p)


def sha512c(p, salt):
    from passlib.hash import sha512_crypt
    return sha512_crypt.using(rounds=5000, salt=salt).hash(p)


SECRET_CLASSES = {
    "text": lambda i: ["Alpha%dx" % i, "zz%dQ!w" % i, "pw_%d-x" % i][i % 3] + "g",
    "numeric": lambda i: str(900100 + 7 * i),
    "hex": lambda i: "%xabcdef" % (0xA0 + i),
    "type7": lambda i: type7("secret%d" % i, salt=i % 16),
    "md5": lambda i: md5c("secret%d" % i, "sa%dlt" % i),
    "sha512": lambda i: sha512c("secret%d" % i, "salt%dsalt" % i),
    "juniper": lambda i: js.juniper_nonrandom_encrypt("secret%d" % i, js.NUM_ALPHA[(7 * i) % 65]),
}

# line forms: (template, where the secret goes); taken from the syntaxes the statement lists
LINE_FORMS = [
    "username admin password 0 {s}", "username bob secret 5 {s}", "enable secret 5 {s}", "enable password {s}",
    " password 7 {s}", "snmp-server community {s} RO", "snmp-server host 1.2.3.4 {s}", "ip ospf authentication-key {s}",
    "ip ospf message-digest-key 1 md5 7 {s}", "tacacs-server key 7 {s}", "radius-server host 1.1.1.1 key {s}",
    "neighbor 1.2.3.4 password {s}", 'set system root-authentication encrypted-password "{s}"',
    'set snmp community {s} authorization read-only', "key {s}", "ntp authentication-key 1 md5 {s}",
    "crypto isakmp key {s} address 1.2.3.4", "set community {s}", "pre-shared-key ascii-text \"{s}\";",
    "authentication-key \"{s}\";", "standby 1 authentication md5 key-string {s}", "isis password {s} level-2",
    "snmp-server user u1 g1 auth md5 {s} priv aes 128 {s2}", "        secret \"{s}\"; ## SECRET-DATA",
    "<pre_shared_key>{k32}</pre_shared_key>",
]
SCRUB = "! Sensitive line SCRUBBED by netconan"


def secret(cls, i):
    return SECRET_CLASSES[cls](i)


def c07():
    classes = list(SECRET_CLASSES)
    forms = LINE_FORMS if not QUICK else LINE_FORMS
    for form in forms:
        for cls in classes:
            if cls == "numeric" and form.startswith("set community"):
                continue      # all-digit BGP communities are deliberately not secrets
            outs = []
            logs = []
            for variant in (1, 2):
                s, s2 = secret(cls, variant), secret(cls, variant + 10)
                line = form.format(s=s, s2=s2, k32=("k%d" % variant) * 16)
                h = LogCap()
                logging.getLogger().addHandler(h)
                try:
                    out = run_io(line + "\n", anon_pwd=True, anon_ip=False, salt="s")
                finally:
                    logging.getLogger().removeHandler(h)
                note((form, cls, variant))
                for sec in (s, s2) if "{s2}" in form else (s,):
                    if "{s}" in form and sec in out and sec not in ("",):
                        known = cls == "numeric" and re.search(r"(password|passwd)( level \d+)?( \d+)? ", form)
                        fail("C07.survives.numeric-after-password" if known else "C07.survives",
                             {"line": line, "output": out, "class": cls}, "the secret is still in the output",
                             "_anonymize_value")
                    for lv, msg in h.records:
                        if sec in msg:
                            fail("C07.log", {"line": line, "log": msg}, "secret logged at INFO or above", "log")
                outs.append(out)
                logs.append(h.records)
            if outs[0] != outs[1] and not any(f["tag"].startswith("C07.survives") for f in FAILS[-2:]):
                fail("C07.depends", {"form": form, "class": cls, "out1": outs[0], "out2": outs[1]},
                     "output depends on the secret's content", "_anonymize_value")
            if logs[0] != logs[1]:
                fail("C07.logdepends", {"form": form, "class": cls}, "log depends on the secret's content", "log")
    # standalone $1$ / $9$ tokens whatever the keywords: replaced as a whole, no fragment of the hash remains
    hashes = [secret("md5", 3), md5c("pw", "./aZ09"), md5c("pw2", "")]
    for i in range(12 if QUICK else 120):
        plain = "".join(chr(RNG.randrange(33, 127)) for _ in range(RNG.randrange(1, 14)))
        hashes.append(js.juniper_nonrandom_encrypt(plain, js.NUM_ALPHA[(11 * i) % 65]))
    # make sure every character of the $9$ alphabet occurs in some body
    hashes.append("$9$" + "".join(js.NUM_ALPHA))
    for kw, tail in (("foo bar", ""), ("xyzzy", " trailing words"), ("description", ";"), ("", ""), ('tunnel-credential "', '"')):
        for h_ in hashes:
            line = ("%s %s" % (kw, h_)).strip() if not kw.endswith('"') else kw + h_
            line += tail
            note(("standalone", kw, h_[:12]))
            out = run_io(line + "\n", anon_pwd=True, anon_ip=False, salt="zz")
            body = h_[4:]
            grams = {body[k:k + 7] for k in range(0, max(1, len(body) - 6))} if len(body) >= 7 else {body}
            if h_ in out or any(g in out for g in grams):
                fail("C07.standalone", {"line": line, "output": out}, "standalone hash-shaped token not replaced as a whole",
                     "extra_password_regexes")


def harvest_forms():
    """(template, class) pairs taken from the sample lines of the working tree's own test data
    (tests/unit/test_sensitive_item_removal.py: module-level lists of (line template with '{}', sample secret)).
    Only the INPUT lines are used - the oracle is the property check of this file.  The class is that of the sample
    secret, so every template is exercised with secrets of the kind it is written for."""
    import ast
    root = os.path.dirname(os.path.dirname(os.path.abspath(sir.__file__)))
    path = os.path.join(root, "tests", "unit", "test_sensitive_item_removal.py")
    out = []
    try:
        tree_ = ast.parse(open(path).read())
    except (OSError, SyntaxError):
        return out
    def cls_of(v):
        if re.fullmatch(r"[0-9]+", v):
            return "numeric"
        if re.fullmatch(r"[01][0-9]([0-9a-fA-F]{2})+", v):
            return "type7"
        if re.fullmatch(r"[0-9a-fA-F]+", v):
            return "hex"
        if re.fullmatch(r"\$1\$\S+\$\S+", v):
            return "md5"
        if re.fullmatch(r"\$6\$\S+", v):
            return "sha512"
        if re.fullmatch(r"\$9\$\S+", v):
            return "juniper"
        return "text"
    for node in tree_.body:
        if not (isinstance(node, ast.Assign) and isinstance(node.value, ast.List)):
            continue
        for el in node.value.elts:
            if isinstance(el, ast.Tuple) and len(el.elts) == 2 and all(isinstance(x, ast.Constant) and isinstance(x.value, str) for x in el.elts):
                tpl, sample = el.elts[0].value, el.elts[1].value
                if tpl.count("{}") != 1:
                    continue
                try:
                    tpl.format("x")
                except (IndexError, KeyError, ValueError):
                    continue
                out.append((tpl.replace("{}", "{s}"), cls_of(sample), len(sample)))
    seen, uniq = set(), []
    for t in out:
        if t[:2] not in seen:
            seen.add(t[:2])
            uniq.append(t)
    return uniq


def c07_corpus():
    """every sample line form of the repository's own test data, with generated secrets of the sample's class:
    the secret does not survive, output and INFO+ log do not depend on its content"""
    for form, cls, n in harvest_forms():
        outs, logs = [], []
        for variant in (1, 2):
            s = secret(cls, variant)
            if cls == "text" and n >= 32:
                s = (("K%dz" % variant) * n)[:n]        # fixed-width fields (32-character pre-shared keys)
            line = form.format(s=s)
            h = LogCap()
            logging.getLogger().addHandler(h)
            try:
                out = run_io(line + "\n", anon_pwd=True, anon_ip=False, salt="s")
            finally:
                logging.getLogger().removeHandler(h)
            note(("corpus", form, cls, variant))
            if s in out:
                known = cls == "numeric" and re.search(r"(password|passwd)( level \d+)?( \d+)? ", form)
                fail("C07.survives.numeric-after-password" if known else "C07.survives",
                     {"line": line, "output": out, "class": cls}, "the secret is still in the output", "regexes")
            for lv, msg in h.records:
                if s in msg:
                    fail("C07.log", {"line": line, "log": msg}, "secret logged at INFO or above", "log")
            outs.append(out)
            logs.append(h.records)
        if outs[0] != outs[1] and not any(f["tag"].startswith("C07.survives") for f in FAILS[-2:]):
            fail("C07.depends", {"form": form, "class": cls, "out1": outs[0], "out2": outs[1]},
                 "output depends on the secret's content", "_anonymize_value")
        if logs[0] != logs[1]:
            fail("C07.logdepends", {"form": form, "class": cls}, "log depends on the secret's content", "log")


def c_corpus(pid):
    """one run over every sample line form of the repository's test data (see harvest_forms), each form twice with
    two secrets A and B of its class: text around the secret kept (C09/C12), A always the same replacement, B always
    another one (C08), replacement of the secret's format (C09)"""
    from passlib.hash import cisco_type7, md5_crypt, sha512_crypt
    forms = [f for f in harvest_forms() if not (f[1] == "numeric" and re.search(r"(password|passwd)( level \d+)?( \d+)? ", f[0]))]
    by_cls = {}
    for form, cls, n in forms:
        by_cls.setdefault(cls, []).append((form, n))
    for cls, fl in sorted(by_cls.items()):
        secs = []
        for v in (1, 2):
            sv = secret(cls, v)
            secs.append(sv)
        lines, meta = [], []
        for form, n in fl:
            for k, sv in enumerate(secs):
                if cls == "text" and n >= 32:
                    sv = (("K%dz" % (k + 1)) * n)[:n]
                lines.append(form.format(s=sv))
                meta.append((form, k, sv))
        note(("corpus-run", pid, cls, len(lines)))
        outs = run_io("\n".join(lines) + "\n", anon_pwd=True, anon_ip=False, salt="s").splitlines()
        if len(outs) != len(lines):
            fail(pid + ".linecount", {"class": cls, "lines": len(lines), "outputs": len(outs)}, "number of lines changed", "anonymize_io")
            continue
        repl = {}
        for (form, k, sv), line, out in zip(meta, lines, outs):
            if SCRUB in out:
                continue
            nl, no = " ".join(line.split()), " ".join(out.split())
            i = nl.find(sv)
            pre, post = nl[:i], nl[i + len(sv):]
            if i < 0 or not no.startswith(pre) or not no.endswith(post) or len(no) < len(pre) + len(post):
                if pid in ("C09", "C12"):
                    fail(pid + ".context", {"line": line, "output": out}, "text before/after the secret changed", "replace_matching_item")
                continue
            mid = no[len(pre):len(no) - len(post)]
            if pid == "C08":
                key = (k, len(sv))
                repl.setdefault(key, set()).add(("J9:" + js.juniper_decrypt(mid)) if cls == "juniper" and mid.startswith("$9$") else mid)
            if pid == "C09":
                ok = True
                try:
                    if cls == "numeric":
                        ok = mid.isdigit()
                    elif cls == "hex":
                        ok = re.fullmatch(r"[0-9a-fA-F]+", mid) is not None
                    elif cls == "type7":
                        ok = cisco_type7.identify(mid) and cisco_type7.decode(mid).startswith("netconanRemoved")
                    elif cls == "md5":
                        ok = md5_crypt.identify(mid) and len(mid.split("$")[2]) == len(sv.split("$")[2])
                    elif cls == "sha512":
                        ok = sha512_crypt.identify(mid) and "rounds=" not in mid
                    elif cls == "juniper":
                        ok = js.juniper_decrypt(mid).startswith("netconanRemoved")
                except Exception:  # noqa
                    ok = False
                if not ok:
                    fail("C09.format", {"line": line, "output": out, "class": cls, "replacement": mid},
                         "replacement does not have the original's format", "_anonymize_value")
        if pid == "C08":
            for key, vals in repl.items():
                if len(vals) > 1:
                    fail("C08.inconsistent", {"class": cls, "secret": key[0], "replacements": sorted(vals)[:4]},
                         "one secret received different replacements on different line forms", "_anonymize_value")
            flat = [next(iter(v)) for v in repl.values() if len(v) == 1]
            if len(set(flat)) != len(flat):
                fail("C08.collision", {"class": cls, "replacements": flat[:6]}, "different secrets share a replacement", "_anonymize_value")


def c07_multi():
    """several secrets of the same line form on one line (single-line JSON / XML, ';'-joined commands): none survives
    and the output does not depend on their content"""
    templates = ['{{"primary": "password {a}", "backup": "password {b}"}}', "snmp-community {a} ; snmp-community {b}",
                 "<pre_shared_key>{ka}</pre_shared_key><x/><pre_shared_key>{kb}</pre_shared_key>",
                 "key {a} ; key {b}", "enable secret 5 {m1} ; enable secret 5 {m2}"]
    for t in templates:
        outs = []
        for variant in (1, 2):
            vals = dict(a=secret("text", variant), b=secret("text", variant + 3), ka=("k%d" % variant) * 16,
                        kb=("q%d" % variant) * 16, m1=secret("md5", variant), m2=secret("md5", variant + 3))
            line = t.format(**vals)
            note(("multi", t, variant))
            out = run_io(line + "\n", anon_pwd=True, anon_ip=False, salt="s")
            for k, v in vals.items():
                if "{" + k + "}" in t and v in out:
                    fail("C07.survives", {"line": line, "output": out}, "a secret is still in the output", "replace_matching_item")
            outs.append(out)
        if outs[0] != outs[1] and not (FAILS and FAILS[-1]["tag"] == "C07.survives"):
            fail("C07.depends", {"template": t, "out1": outs[0], "out2": outs[1]}, "output depends on the secrets' content",
                 "replace_matching_item")


def c08():
    classes = list(SECRET_CLASSES)
    quotes = [("", ""), ('"', '"'), ("'", "'"), ('"', '";'), ("{", "}"), ("[", "],")]
    forms = ["password {s}", "snmp-server community {s}", "key {s}", "enable secret {s}", "set community {s}"]
    n = 60 if QUICK else 1500
    for trial in range(n):
        k = RNG.randrange(2, 6)
        secs = []
        for j in range(k):
            cls = RNG.choice(classes + ["badj9"])
            if cls == "badj9":      # $9$-shaped but not decryptable: an opaque text secret
                secs.append(("text", ["$9$abc", "$9$Zz1!xyz9", "$9$" + "Q" * 9 + "_", "$9$dnwg"][RNG.randrange(4)]))
            else:
                secs.append((cls, secret(cls, RNG.randrange(1, 5))))
        lines, used = [], []
        for _ in range(RNG.randrange(3, 9)):
            cls, s = RNG.choice(secs)
            q = RNG.choice(quotes) if cls in ("text", "numeric", "hex") else ("", "")
            if cls == "juniper" and RNG.random() < 0.5:
                s_line = js.juniper_nonrandom_encrypt(js.juniper_decrypt(s), RNG.choice(js.NUM_ALPHA))  # re-encoding
            else:
                s_line = s
            form = RNG.choice(forms if cls != "numeric" else forms[:4])   # all-digit BGP communities are not secrets
            lines.append(form.format(s=q[0] + s_line + q[1]))
            used.append((cls, s, q))
        note(tuple(lines))
        fa = FileAnonymizer(anon_pwd=True, anon_ip=False, salt="s8")
        out = io.StringIO()
        fa.anonymize_io(io.StringIO("\n".join(lines) + "\n"), out)
        outs = out.getvalue().splitlines()
        repl = {}
        for (cls, s, q), o in zip(used, outs):
            tok = o.split()[-1]
            core = tok[len(q[0]):len(tok) - len(q[1])] if q[1] else tok[len(q[0]):]
            key = js.juniper_decrypt(s) if cls == "juniper" else s
            if cls == "juniper":
                try:
                    core = "J9:" + js.juniper_decrypt(core)
                except ValueError:
                    core = "J9-bad:" + core
            repl.setdefault(key, set()).add(core)
        for key, vals in repl.items():
            if len(vals) > 1:
                fail("C08.inconsistent", {"lines": lines, "outputs": outs, "secret": key, "replacements": sorted(vals)},
                     "equal secrets received different replacements", "_anonymize_value#post")
        flat = [next(iter(v)) for v in repl.values() if len(v) == 1]
        if len(set(flat)) != len(flat):
            fail("C08.collision", {"lines": lines, "outputs": outs}, "different secrets share a replacement",
                 "_anonymize_value#post")


def c09():
    from passlib.hash import cisco_type7, md5_crypt, sha512_crypt
    forms = ["password {s}", "key {s}", "set community {s}", 'authentication-key "{s}";', "enable secret {s}"]
    encl = [("", ""), ('"', '"'), ("'", "'"), ('"', '";'), ("{", "}"), ("[", "]"), ('\\"', '\\"'), ('"', '",')]
    for salt in ("s", "", "_odd salt", "é"):
        for form in forms:
            for cls in SECRET_CLASSES:
                for i in range(1, 3 if QUICK else 9):
                    for (h, t) in (encl if cls in ("text", "numeric", "hex") else encl[:2]):
                        s = secret(cls, i)
                        if cls == "type7" and (i + len(form)) % 2 and any(c in "ABCDEF" for c in s):
                            s = s.lower()                    # type 7 is hexadecimal in either letter case
                        if cls == "md5":
                            salts = ["abcdefgh"[: (i % 8) + 1], "1aZ9", "11abc", "1", "$"[:0] + "0x1", "12345678"]
                            s = md5c("x%d" % i, salts[(i + len(h) + len(form)) % len(salts)])
                        if '"' in form and h:
                            continue
                        line = "  " + form.format(s=h + s + t) + "  "
                        note((salt, form, cls, i, h))
                        out = run_io(line + "\n", anon_pwd=True, anon_ip=False, salt=salt)
                        if SCRUB in out:
                            continue
                        pre = line[: line.index(h + s + t)]
                        if not out.startswith(pre) or not out.rstrip("\n").endswith(t + ("\";" if form.endswith('";') else "") + "  "):
                            fail("C09.context", {"line": line, "output": out}, "text around the secret changed", "post")
                            continue
                        mid = out[len(pre):]
                        mid = mid[len(h):]
                        core = mid.split()[0] if mid.split() else ""
                        for tt in (t, '";', '"', ";", ","):
                            if tt and core.endswith(tt):
                                core = core[: -len(tt)]
                        ok = True
                        if cls == "numeric":
                            ok = core.isdigit()
                        elif cls == "hex":
                            ok = re.fullmatch(r"[0-9a-fA-F]+", core) is not None
                        elif cls == "type7":
                            try:
                                ok = cisco_type7.identify(core) and cisco_type7.decode(core).startswith("netconanRemoved")
                            except Exception:
                                ok = False
                        elif cls == "md5":
                            ok = md5_crypt.identify(core) and len(core.split("$")[2]) == len(s.split("$")[2])
                        elif cls == "sha512":
                            ok = sha512_crypt.identify(core) and "rounds=" not in core
                        elif cls == "juniper":
                            try:
                                ok = js.juniper_decrypt(core).startswith("netconanRemoved")
                            except ValueError:
                                ok = False
                        if not ok:
                            fail("C09.format", {"line": line, "output": out, "class": cls, "replacement": core},
                                 "replacement does not have the original's format", "_anonymize_value")


def c10():
    wordsets = [["seattle", "sea"], ["Intentionet", "net"], ["zurich"], ["xylo", "phone", "xylophone"], ["kiwi.x"]]
    reserved_sets = [None, ["seattlehub", "zurichnet"], ["oxylox"]]
    lines = ["hostname seattle-rtr1", "description link to SEATTLE via Sea gate", "seaseattlesea", "xylophone xylo phone",
             "router zurichnet zurich", "ip host intentionet.net 1.2.3.4", "set seattlehub sea", "password seattle",
             "  kiwi.x kiwiQx ", "interface GigabitEthernet0/0 sea", "address-family ipv4 unicast seattle"]
    for ws in wordsets:
        for rs in reserved_sets:
            for seed in ("0", "1", "7") if not QUICK else ("0", "3"):
                env = dict(os.environ, PYTHONHASHSEED=seed)
                code = ("import io,sys,json;from netconan.anonymize_files import FileAnonymizer;"
                        "fa=FileAnonymizer(anon_pwd=False,anon_ip=False,salt='w',sensitive_words=%r,reserved_words=%r);"
                        "o=io.StringIO();fa.anonymize_io(io.StringIO(%r),o);print(json.dumps(o.getvalue()))"
                        % (ws, rs, "\n".join(lines) + "\n"))
                r = subprocess.run([sys.executable, "-c", code], capture_output=True, text=True, env=env)
                note((tuple(ws), tuple(rs or ()), seed))
                if r.returncode != 0:
                    fail("C10.exception", {"words": ws, "reserved": rs}, r.stderr[-300:], "safe")
                    continue
                out = json.loads(r.stdout)
                reserved = set(sir.default_reserved_words) | set(rs or [])
                reserved = {w.lower() for w in reserved}
                for ln_in, ln_out in zip(lines, out.splitlines()):
                    for tok in ln_out.split():
                        if tok.lower() in reserved:
                            continue
                        for w in ws:
                            if w.lower() in tok.lower():
                                fail("C10.survives", {"words": ws, "reserved": rs, "line": ln_in, "output": ln_out, "seed": seed},
                                     "sensitive word %r survives" % w, "SensitiveWordAnonymizer")
                    for tok_in in ln_in.split():
                        if tok_in.lower() in reserved and tok_in not in ln_out.split() and not ln_in.startswith("password"):
                            fail("C10.reserved", {"words": ws, "reserved": rs, "line": ln_in, "output": ln_out},
                                 "reserved word %r was changed" % tok_in, "conflicting_words")


def c08_multi():
    """one run over several streams / files: the same secret gets the same replacement in every file and different
    secrets never share one"""
    import tempfile, shutil
    from netconan.anonymize_files import anonymize_files
    secs = [secret("text", 1), secret("text", 2), secret("hex", 1), secret("numeric", 2)]
    j_plain = "JunosKey77"
    j1, j2 = js.juniper_nonrandom_encrypt(j_plain, "a"), js.juniper_nonrandom_encrypt(j_plain, "Q")
    files = [["password %s" % secs[0], "snmp-server community %s RO" % secs[1], "key %s" % secs[2],
              'secret "%s"; ## SECRET-DATA' % j1],
             ["key %s" % secs[3], "enable password %s" % secs[2], 'secret "%s"; ## SECRET-DATA' % j2,
              "password %s" % secs[1], "snmp-server community %s RO" % secs[0]]]
    keys = [[secs[0], secs[1], secs[2], "J:" + j_plain], [secs[3], secs[2], "J:" + j_plain, secs[1], secs[0]]]

    def judge(outs, how):
        repl = {}
        for ks, out in zip(keys, outs):
            for k, ln in zip(ks, out.splitlines()):
                tok = [t for t in ln.split() if t not in ("RO", "##", "SECRET-DATA")][-1].strip('";')
                if k.startswith("J:"):
                    try:
                        tok = "J9:" + js.juniper_decrypt(tok)
                    except ValueError:
                        tok = "J9-bad:" + tok
                repl.setdefault(k, set()).add(tok)
        for k, v in repl.items():
            if len(v) > 1:
                fail("C08.inconsistent-across-files", {"how": how, "files": files, "outputs": outs, "secret": k,
                                                       "replacements": sorted(v)},
                     "equal secrets received different replacements in one run", "FileAnonymizer.pwd_lookup")
        flat = [next(iter(v)) for v in repl.values() if len(v) == 1]
        if len(set(flat)) != len(flat):
            fail("C08.collision-across-files", {"how": how, "files": files, "outputs": outs},
                 "different secrets share a replacement in one run", "FileAnonymizer.pwd_lookup")

    # several secrets of one line form on the same line
    a, b = secret("text", 1), secret("text", 2)
    text = ['{"primary": "password %s", "backup": "password %s"}' % (a, b), "key %s ; key %s" % (a, b),
            "password %s" % b, "password %s" % a, "key %s ; key %s" % (b, b)]
    note(("multi", "same-line"))
    out = run_io("\n".join(text) + "\n", anon_pwd=True, anon_ip=False, salt="s8").splitlines()
    if len(out) == len(text):
        ra, rb = out[3].split()[-1], out[2].split()[-1]
        exp = [text[0].replace(a, ra).replace(b, rb), text[1].replace(a, ra).replace(b, rb), "password " + rb,
               "password " + ra, text[4].replace(b, rb)]
        if ra == rb:
            fail("C08.collision", {"lines": text, "outputs": out}, "different secrets share a replacement", "replace_matching_item")
        elif out != exp:
            fail("C08.inconsistent", {"lines": text, "outputs": out, "expected": exp},
                 "secrets sharing a line are not each replaced by their own replacement", "replace_matching_item")
    else:
        fail("C08.inconsistent", {"lines": text, "outputs": out}, "line count changed", "replace_matching_item")

    # one $9$ / $1$ secret in different quoting and punctuation contexts (catch-all forms): one replacement
    jsec = js.juniper_nonrandom_encrypt("sharedKey-42", "C")
    msec = md5c("sharedKey-42", "abcd")
    for sec in (jsec, msec):
        ctx = ['pre-shared-key ascii-text "%s";', 'psk="%s" mode=main', "psk=%s", '{"pre-shared-key":"%s","mode":"main"}',
               "tunnel-credential %s ;", 'x "%s"', "[%s]", "{%s},"]
        note(("multi", "contexts", sec[:3]))
        out = run_io("\n".join(c % sec for c in ctx) + "\n", anon_pwd=True, anon_ip=False, salt="s8").splitlines()
        got = set()
        for c, o in zip(ctx, out):
            pre, post = c.split("%s")
            if SCRUB in o:
                continue
            if not (o.startswith(pre) and o.endswith(post) and len(o) >= len(pre) + len(post)):
                fail("C08.inconsistent", {"line": c % sec, "output": o}, "text around the secret changed / swallowed", "regexes")
                continue
            mid = o[len(pre):len(o) - len(post)]
            if sec is jsec:
                try:
                    mid = "J9:" + js.juniper_decrypt(mid)
                except ValueError:
                    mid = "J9-bad:" + mid
            got.add(mid)
        if len(got) > 1:
            fail("C08.inconsistent", {"secret": sec, "contexts": ctx, "replacements": sorted(got)},
                 "one secret received different replacements depending on quoting / punctuation", "regexes")

    note(("multi", "streams"))
    fa = FileAnonymizer(anon_pwd=True, anon_ip=False, salt="s8")
    outs = []
    for f in files:
        o = io.StringIO()
        fa.anonymize_io(io.StringIO("\n".join(f) + "\n"), o)
        outs.append(o.getvalue())
    judge(outs, "two anonymize_io calls on one FileAnonymizer")
    note(("multi", "directory"))
    d = tempfile.mkdtemp(prefix="rtc08_")
    try:
        os.makedirs(os.path.join(d, "in", "sub"))
        names = [os.path.join("a.cfg"), os.path.join("sub", "b.cfg")]
        for nm, f in zip(names, files):
            with open(os.path.join(d, "in", nm), "w") as fh:
                fh.write("\n".join(f) + "\n")
        anonymize_files(os.path.join(d, "in"), os.path.join(d, "out"), True, False, salt="s8")
        outs = [open(os.path.join(d, "out", nm)).read() for nm in names]
        judge(outs, "anonymize_files over a directory")
    finally:
        shutil.rmtree(d, ignore_errors=True)


def c10_unicode():
    """listed words with non-ASCII letters, in the letter cases that map one-to-one (as listed, lower, upper when it
    has the same length): none survives"""
    words = ["Gießen", "zürich", "Ærø", "İzmir", "naïve"]
    lines = []
    for w in words:
        variants = {w, w.lower()}
        if len(w.upper()) == len(w) and w.upper().lower() == w.lower():
            variants.add(w.upper())
        for v in sorted(variants):
            lines += ["hostname %s-core-rtr1" % v, "description link to %s, via x%sy" % (v, v)]
    note(("unicode-words", len(lines)))
    out = run_io("\n".join(lines) + "\n", salt="w", anon_pwd=False, anon_ip=False, sensitive_words=list(words))
    for ln_in, ln_out in zip(lines, out.splitlines()):
        for w in words:
            if w.lower() in ln_in.lower() and w.lower() in ln_out.lower():
                fail("C10.survives", {"words": words, "line": ln_in, "output": ln_out},
                     "sensitive word %r survives" % w, "SensitiveWordAnonymizer")


def c10_with_secrets():
    """sensitive words next to secrets, including lines that are scrubbed: no listed word survives"""
    words = ["seattle", "zurich"]
    lines = ["ssid seattle-corp wpa-psk ascii 0 pw", "cable shared-secret 7 0822455D0A16 zurich",
             "username zurichadmin password 0 Alpha1xg", "snmp-server community seattlecomm RO",
             "seattle-grp ldap-login-password abc", "description seattle uplink", "password 7 0822455D0A16 seattle",
             "neighbor 1.2.3.4 password seattle zurich"]
    for pwd in (True, False):
        note(("with-secrets", pwd))
        out = run_io("\n".join(lines) + "\n", salt="w", anon_pwd=pwd, anon_ip=False, sensitive_words=list(words))
        for ln_in, ln_out in zip(lines, out.splitlines()):
            for w in words:
                if w in ln_out.lower():
                    fail("C10.survives", {"words": words, "anon_pwd": pwd, "line": ln_in, "output": ln_out},
                         "sensitive word %r survives" % w, "anonymize_io")


BENIGN = ["interface GigabitEthernet0/1", " description uplink  to   core", "\tno shutdown", "", "   ", "\t", "!",
          "router bgp 65001", " neighbor 10.1.2.3 remote-as 65002", "ip route 0.0.0.0 0.0.0.0 192.0.2.1",
          "line vty 0 4", " transport input ssh", "hostname edge-rtr", "ipv6 address 2001:db8::1/64",
          "banner motd ^C welcome ^C", "  password 7 0822455D0A16  ", "snmp-server community hunter2 RO\r"]
FEATURES = [dict(anon_pwd=a, anon_ip=b, sensitive_words=w, as_numbers=n)
            for a in (False, True) for b in (False, True) for w in (None, ["edge"]) for n in (None, ["65001"])]


def c12():
    texts = ["\n".join(BENIGN) + "\n", "\n".join(BENIGN), "\n\n  \n", "x", ""]
    perms = [list(BENIGN), list(reversed(BENIGN))]
    for feat in FEATURES:
        if not any([feat["anon_pwd"], feat["anon_ip"], feat["sensitive_words"], feat["as_numbers"]]):
            continue
        for text in texts:
            note((json.dumps(feat, sort_keys=True), text[:20], len(text)))
            out = run_io(text, salt="s12", **feat)
            li, lo = text.splitlines(True), out.splitlines(True)
            if len(li) != len(lo):
                fail("C12.linecount", {"features": feat, "text": text, "output": out}, "number of lines changed", "anonymize_io")
                continue
            for a, b in zip(li, lo):
                la, lb = a[: len(a) - len(a.lstrip())], b[: len(b) - len(b.lstrip())]
                ta, tb = a[len(a.rstrip()):], b[len(b.rstrip()):]
                if a.strip() and (la != lb or ta != tb):
                    fail("C12.whitespace", {"features": feat, "line": a, "output": b}, "outer whitespace / terminator changed", "_split_line")
                if not a.strip() and a != b:
                    fail("C12.blank", {"features": feat, "line": a, "output": b}, "blank line changed", "_split_line")
                if "password" not in a and "community" not in a and "edge" not in a and not re.search(r"\d+\.\d+|:|65001", a):
                    if a.split() != b.split():
                        fail("C12.token", {"features": feat, "line": a, "output": b}, "non-sensitive tokens changed", "frame")
        # each output line depends only on its own input line (secrets aside)
        f2 = dict(feat, anon_pwd=False)
        if any([f2["anon_ip"], f2["sensitive_words"], f2["as_numbers"]]):
            whole = run_io("\n".join(BENIGN) + "\n", salt="s12", **f2).splitlines(True)
            for i, ln in enumerate(BENIGN):
                one = run_io(ln + "\n", salt="s12", **f2)
                if one != whole[i]:
                    fail("C12.context", {"features": f2, "line": ln, "alone": one, "in_file": whole[i]},
                         "line output depends on other lines", "anonymize_io")


def c12_masks():
    """tokens the IP stage must skip (netmasks, wildcard masks, addresses of a preserved network) written with
    zero-padded octets are carried over as written, whatever else is on the line (found missing by seed s8-C12)"""
    toks = ["255.255.255.000", "255.255.000.000", "000.000.000.255", "0.0.0.255", "255.255.255.0", "255.255.255.255",
            "000.000.000.000", "255.255.255.252", "255.128.000.000", "000.000.003.255"]
    forms = ["ip address 10.1.2.3 %s", " network 172.16.5.0 %s area 0", "access-list 10 permit 192.0.2.0 %s\r",
             "\tmask %s", "%s", "route 10.9.8.0 %s 10.1.1.1 %s"]
    for salt in ("s12", "m"):
        for form in forms:
            for t in toks:
                line = form.replace("%s", t)
                note(("mask", salt, form, t))
                out = run_io(line + "\n", salt=salt, anon_pwd=False, anon_ip=True)
                ti, to = line.split(), out.split()
                if len(ti) != len(to) or any(x == t and y != t for x, y in zip(ti, to)):
                    fail("C12.token", {"line": line, "output": out, "token": t},
                         "a netmask / wildcard token was not carried over as written", "_anonymize_match")
    pres = ["010.001.002.003", "10.01.2.3", "10.1.2.003"]
    for t in pres:
        line = "ip route %s 255.255.255.255 Null0" % t
        note(("preserved", t))
        out = run_io(line + "\n", salt="s12", anon_pwd=False, anon_ip=True, preserve_networks=["10.0.0.0/8"])
        if out != line + "\n":
            fail("C12.token", {"line": line, "output": out, "token": t, "preserve_networks": ["10.0.0.0/8"]},
                 "an address of a preserved network was not carried over as written", "_anonymize_match")


def c12_verbatim():
    """secret-bearing lines whose other tokens contain characters special to regex replacement templates:
    exactly one line out, every token except the secret carried over verbatim"""
    odd = ["CORP\\netadmin", "CORP\\admin", "a\\tb", "x\\1y", "g\\g<0>h", "tail\\", "p&q", "$1", "r\\r", "q\\sz", "u\\u12"]
    forms = ["username {o} secret 5 {s}", "username {o} password 0 {s}", "snmp-server user nms {o} auth md5 {s}",
             "snmp-server host {o} version 2c {s}", "{o} neighbor 1.2.3.4 password {s}"]
    sec = {0: secret("md5", 1), 1: secret("text", 1), 2: secret("text", 2), 3: secret("text", 3), 4: secret("type7", 2)}
    for o in odd:
        for i, form in enumerate(forms):
            line = form.format(o=o, s=sec[i]) + "\n"
            note(("verbatim", o, i))
            out = run_io(line, salt="s12", anon_pwd=True, anon_ip=False)
            if len(out.splitlines(True)) != 1 or not out.endswith("\n"):
                fail("C12.linecount", {"line": line, "output": out}, "one input line did not give one output line", "replace_matching_item")
                continue
            ti, to = line.split(), out.split()
            keep_i = [t for t in ti if t != sec[i]]
            if len(ti) != len(to) or [t for t, u in zip(to, ti) if u != sec[i]] != keep_i:
                fail("C12.token", {"line": line, "output": out}, "non-sensitive tokens changed", "replace_matching_item")


CORPUS = "\n".join(BENIGN + [LINE_FORMS[i].format(s=secret(c, 2), s2=secret(c, 3), k32="k" * 32)
                             for i, c in zip(range(12), itertools.cycle(SECRET_CLASSES))]) + "\n"


def sub_run(code, seed):
    env = dict(os.environ, PYTHONHASHSEED=str(seed))
    r = subprocess.run([sys.executable, "-c", code], capture_output=True, text=True, env=env)
    return r.returncode, r.stdout, r.stderr


def c13():
    opts = [dict(anon_pwd=True, anon_ip=True, salt="s13", sensitive_words=["sea", "seattle", "edge"], as_numbers=["65001", "650"],
                 reserved_words=["foo"], preserve_networks=["10.0.0.0/8"], preserve_prefixes=["12.0.0.0/8"], preserve_suffix_v4=8, preserve_suffix_v6=8),
            dict(anon_pwd=True, anon_ip=False, salt="s13"),
            dict(anon_pwd=False, anon_ip=True, salt=""),
            dict(anon_pwd=False, anon_ip=False, salt="x", sensitive_words=["edge", "edg", "dge", "Edge-Rtr"])]
    # type 7 values with every leading seed 00..19 (the classifier accepts [01][0-9]), not only what passlib emits
    t7 = "".join("enable password 7 %02d08030A2B25\n" % k for k in range(20))
    text = CORPUS + "hostname seattle sea edge\n" + t7
    for o in opts:
        outs = []
        for seed in (0, 1, 2, 3)[: 2 if QUICK else 4]:
            code = ("import io,json;from netconan.anonymize_files import FileAnonymizer;"
                    "fa=FileAnonymizer(**%r);o=io.StringIO();fa.anonymize_io(io.StringIO(%r),o);print(json.dumps(o.getvalue()))" % (o, text))
            rc, so, se = sub_run(code, seed)
            note((json.dumps(o, sort_keys=True), seed))
            if rc != 0:
                fail("C13.exception", {"options": o}, se[-300:], "safe")
                break
            outs.append(json.loads(so))
        if len(set(outs)) > 1:
            fail("C13.hashseed", {"options": o}, "output differs between processes / hash seeds", "deterministic")
        # repeated runs and earlier anonymizers in the same process
        a = run_io(text, **o)
        lists = {k: list(v) for k, v in o.items() if isinstance(v, list)}
        FileAnonymizer(anon_pwd=True, anon_ip=True, salt="other", reserved_words=["edge", "sea", "hunter2"],
                       sensitive_words=["zzz"], preserve_networks=["11.0.0.0/8", "168.0.0.0/8"])
        b = run_io(text, **o)
        note((json.dumps(o, sort_keys=True), "repeat"))
        if a != b:
            fail("C13.global_state", {"options": o}, "output changed after another anonymizer was created in the process", "frame")
        if outs and a != outs[0]:
            fail("C13.repeat", {"options": o}, "in-process run differs from a fresh process", "deterministic")
        for k, v in lists.items():
            if o[k] != v:
                fail("C13.arg_mutated", {"option": k, "before": v, "after": o[k]}, "caller's option list was modified", "frame")
    # a directory run (several files sharing one anonymizer): identical bytes whatever the hash seed
    tmp = tempfile.mkdtemp(prefix="vc13_")
    try:
        spec = {}
        for k in range(6):
            spec["d%d/r%d.cfg" % (k % 2, k)] = ("hostname r%d\npassword secretNo%d\nsnmp-server community comm%d RO\n"
                                                "ip address 10.%d.2.3 255.255.255.0\n" % (k, k, k, k)).encode()
        tree(os.path.join(tmp, "in"), spec)
        blobs = []
        for seed in (0, 1, 2, 3, 4)[: 3 if QUICK else 5]:
            outd = os.path.join(tmp, "out%d" % seed)
            code = ("from netconan.anonymize_files import anonymize_files;"
                    "anonymize_files(%r, %r, True, True, salt='s13')" % (os.path.join(tmp, "in"), outd))
            rc, so, se = sub_run(code, seed)
            note(("dir-hashseed", seed))
            if rc != 0:
                fail("C13.exception", {"seed": seed}, se[-300:], "safe")
                break
            blobs.append(json.dumps({k_: v.decode() for k_, v in sorted(listing(outd).items())}))
        if len(set(blobs)) > 1:
            fail("C13.hashseed", {"tree": sorted(spec)}, "directory output differs between processes / hash seeds", "anonymize_files")
    finally:
        shutil.rmtree(tmp, ignore_errors=True)
    # no salt: generated salt is reported and reproduces the output
    h = LogCap()
    logging.getLogger().addHandler(h)
    try:
        a = run_io(text, anon_pwd=True, anon_ip=True)
    finally:
        logging.getLogger().removeHandler(h)
    m = [re.search(r'"(\w+)"', msg) for lv, msg in h.records if "salt" in msg.lower()]
    note("nosalt")
    if not m or not m[0]:
        fail("C13.nosalt", {}, "generated salt not reported at WARNING", "FileAnonymizer.__init__")
    elif run_io(text, anon_pwd=True, anon_ip=True, salt=m[0].group(1)) != a:
        fail("C13.nosalt", {"salt": m[0].group(1)}, "re-running with the reported salt gives different output", "FileAnonymizer.__init__")


def c14_lines():
    base = ["password foo", "enable secret 5 $1$123456789$abcdefghijklmnopqrstuv", "enable secret 5 $1$$x", "key $9$", "key $9$abc",
            "key $9$ab!defg", "password $9$my_secret_key", "set community $1$", "fe80:%x", "1::2::3 256.1.1.1 ::ffff:1.2.3.4",
            "snmp-server user a\\b grp auth md5 pw", "snmp-server user a\\g<1> grp auth md5 pw priv aes 128 p2",
            "password " + '"' * 3000 + "x", "key " + "[" * 2500 + "x" + "]" * 2500, "password \\", "key (a|b)*+?[", "password 7 08",
            "password 7 ZZZZ", "set community (", "ip address 999.999.999.999", "\x00\x01 password \x7f", "password пароль",
            "router bgp 99999999999999999999", "key-string 7 " + "F" * 500, "$1$$$$", "$9$" + "Q" * 3, "password '", 'key "',
            "username x password 0 ", "username  secret", "wpa-psk ascii x", "(\\S* )*md5 5 key q;"]
    out = list(base)
    for b in base[:20]:
        for _ in range(2 if QUICK else 30):
            i = RNG.randrange(len(b) + 1)
            out.append(b[:i] + RNG.choice(["\\", "$", "(", "[", "%", '"', "'", ":", ".", "9", " "]) + b[i:])
    return out


def c14():
    salts = ["s", "", "_x", "!", "é", "\\", "$9$"]
    feats = [dict(anon_pwd=True, anon_ip=True, sensitive_words=["a.c", "key", "(x"], as_numbers=["65001", "9"]),
             dict(anon_pwd=True, anon_ip=False), dict(anon_pwd=False, anon_ip=True),
             dict(anon_pwd=False, anon_ip=False, sensitive_words=["pass"]),
             dict(anon_pwd=False, anon_ip=True, undo_ip_anon=False, as_numbers=["1"])]
    lines = c14_lines()
    for salt in salts:
        for feat in feats:
            try:
                fa = FileAnonymizer(salt=salt, **feat)
            except Exception as e:  # noqa
                fail("C14.construct", {"salt": salt, "features": feat}, "%s: %s" % (type(e).__name__, e), "safe")
                continue
            for ln in lines:
                note((salt, json.dumps(feat, sort_keys=True), ln[:60], len(ln)))
                try:
                    o = io.StringIO()
                    fa.anonymize_io(io.StringIO(ln + "\n"), o)
                    if o.getvalue().count("\n") != 1:
                        fail("C14.line", {"salt": salt, "features": feat, "line": ln[:200]}, "a line did not give a line", "anonymize_io")
                except Exception as e:  # noqa
                    tb = traceback.extract_tb(sys.exc_info()[2])
                    where = [fr for fr in tb if "netconan" in fr.filename]
                    fail("C14.raises." + type(e).__name__, {"salt": salt, "features": feat, "line": ln[:300], "len": len(ln)},
                         "%s: %s at %s:%s" % (type(e).__name__, str(e)[:100], where[-1].filename.split("/")[-1] if where else "",
                                              where[-1].lineno if where else ""), "safe")


def c15():
    text = CORPUS + "ip address ::ffff:11.22.33.44 and 2001:db8:1::198.51.100.77/96\nedge 65001 sea\n"
    optsets = [dict(salt="s15", preserve_suffix_v4=8, preserve_suffix_v6=8), dict(salt="t", preserve_suffix_v4=0, preserve_suffix_v6=0),
               dict(salt="u", preserve_suffix_v4=3, preserve_suffix_v6=20, preserve_networks=["10.0.0.0/8"])]
    for base in optsets:
        for pwd, ip, w, n in itertools.product((False, True), ("off", "anon", "undo"), (None, ["edge", "sea"]), (None, ["65001", "1"])):
            if not (pwd or ip != "off" or w or n):
                continue
            kw = dict(base, anon_pwd=pwd, anon_ip=(ip == "anon"), undo_ip_anon=(ip == "undo"), sensitive_words=w, as_numbers=n)
            combined = run_io(text, **kw)
            cur = text
            ipkw = {k: v for k, v in base.items()}
            if pwd:
                cur = run_io(cur, anon_pwd=True, anon_ip=False, salt=base["salt"])
            if ip != "off":
                f6 = FileAnonymizer(anon_pwd=False, anon_ip=(ip == "anon"), undo_ip_anon=(ip == "undo"), **ipkw)
                f6.anonymizer4 = None
                o = io.StringIO(); f6.anonymize_io(io.StringIO(cur), o); cur = o.getvalue()
                f4 = FileAnonymizer(anon_pwd=False, anon_ip=(ip == "anon"), undo_ip_anon=(ip == "undo"), **ipkw)
                f4.anonymizer6 = None
                o = io.StringIO(); f4.anonymize_io(io.StringIO(cur), o); cur = o.getvalue()
            if w:
                cur = run_io(cur, anon_pwd=False, anon_ip=False, salt=base["salt"], sensitive_words=w)
            if n:
                cur = run_io(cur, anon_pwd=False, anon_ip=False, salt=base["salt"], as_numbers=n)
            note((base["salt"], pwd, ip, bool(w), bool(n)))
            if combined != cur:
                d = [(a, b) for a, b in zip(combined.splitlines(), cur.splitlines()) if a != b][:2]
                fail("C15.compose", {"options": kw, "first_differences": d},
                     "combined run differs from applying the single-feature anonymizers in order", "anonymize_io")


def tree(root, spec):
    for rel, data in spec.items():
        p = os.path.join(root, rel)
        os.makedirs(os.path.dirname(p), exist_ok=True)
        with open(p, "wb") as f:
            f.write(data)


def listing(root):
    out = {}
    for d, _, files in os.walk(root):
        for f in files:
            p = os.path.join(d, f)
            with open(p, "rb") as fh:
                out[os.path.relpath(p, root)] = fh.read()
    return out


def c16():
    good = ("hostname r1\npassword hunter%d\nip address 10.1.2.%d 255.255.255.0\nsnmp-server community comm%d RO\n")
    bad_late = ("password early%d\n" * 3 + "x" * 9000 + "\n").encode() + b"\xff\xfe\n"
    bad_early = b"\xff\xfe password z\n"
    specs = [
        {"a.cfg": (good % (1, 1, 1)).encode(), "sub dir/b é.cfg": (good % (2, 2, 2)).encode(), ".hidden": b"password x\n",
         "sub dir/.skip": b"x\n", "deep/er/est/c.cfg": (good % (3, 3, 3)).encode()},
        {"0bad.cfg": bad_late % (1, 2, 3), "site/r1.cfg": (good % (1, 1, 1)).encode(), "site/r2.cfg": (good % (2, 2, 2)).encode()},
        {"a.cfg": (good % (1, 1, 1)).encode(), "m_bad.cfg": bad_early, "z.cfg": (good % (1, 9, 1)).encode(), "zz_bad.cfg": bad_late % (4, 5, 6)},
        {"only.cfg": (good % (5, 5, 5)).encode()},
    ]
    kw = dict(anon_pwd=True, anon_ip=True, salt="s16")
    for spec in specs:
        for pre_existing in (False, True):
            tmp = tempfile.mkdtemp(prefix="vc16_")
            try:
                ind, outd = os.path.join(tmp, "in"), os.path.join(tmp, "out")
                tree(ind, spec)
                if pre_existing:
                    tree(outd, {"stale.txt": b"old", "sub dir/keep": b"k"})
                    blocker = next((k for k in spec if "/" not in k and not k.startswith(".") and "bad" not in k), None)
                    if blocker and len(spec) > 2:
                        os.makedirs(os.path.join(outd, blocker))     # output path occupied by a directory
                before = listing(ind)
                pre_out = listing(outd) if pre_existing else {}
                note((tuple(sorted(spec)), pre_existing))
                logging.disable(logging.CRITICAL)
                try:
                    anonymize_files(ind, outd, **kw)
                finally:
                    logging.disable(logging.NOTSET)
                if listing(ind) != before:
                    fail("C16.input_modified", {"tree": sorted(spec)}, "an input file was modified", "frame")
                got = listing(outd)
                blocked = {k for k in spec if os.path.isdir(os.path.join(outd, k))}
                for rel, data in spec.items():
                    hidden = os.path.basename(rel).startswith(".")
                    isbad = b"\xff" in data
                    if hidden and rel in got and rel not in pre_out:
                        fail("C16.hidden", {"file": rel}, "hidden file was processed", "file_list")
                    if hidden or isbad or rel in blocked:
                        continue
                    # expected content: the same file through the stream API, alone
                    fa = FileAnonymizer(**kw)
                    o = io.StringIO()
                    fa.anonymize_io(io.StringIO(data.decode()), o)
                    # pseudonym numbering depends on earlier secrets of the run: compare modulo netconanRemovedN
                    norm = lambda s: re.sub(r"netconanRemoved\d+|[0-9]{20,}", "NR", s)
                    if rel not in got:
                        fail("C16.missing", {"file": rel, "tree": sorted(spec)}, "no output for a processable file", "file_list")
                    elif norm(got[rel].decode()) != norm(o.getvalue()):
                        fail("C16.content", {"file": rel}, "directory API content differs from stream API", "anonymize_io")
                extra = set(got) - set(spec) - set(pre_out)
                if extra:
                    fail("C16.extra", {"extra": sorted(extra)}, "something else was written", "frame")
                # fault isolation: outputs of good files equal those of a run without the bad files
                bad = [k for k, v in spec.items() if b"\xff" in v]
                if bad and not pre_existing:
                    tmp2 = tempfile.mkdtemp(prefix="vc16b_")
                    try:
                        tree(os.path.join(tmp2, "in"), {k: v for k, v in spec.items() if k not in bad})
                        logging.disable(logging.CRITICAL)
                        try:
                            anonymize_files(os.path.join(tmp2, "in"), os.path.join(tmp2, "out"), **kw)
                        finally:
                            logging.disable(logging.NOTSET)
                        ref = listing(os.path.join(tmp2, "out"))
                        for rel, data in ref.items():
                            if got.get(rel) != data:
                                fail("C16.isolation", {"file": rel, "failing": bad, "with": got.get(rel, b"").decode()[:200],
                                                       "without": data.decode()[:200]},
                                     "a failing file changed the output of another file", "anonymize_io")
                    finally:
                        shutil.rmtree(tmp2, ignore_errors=True)
            finally:
                shutil.rmtree(tmp, ignore_errors=True)
    # spellings of the input/output paths: relative, trailing separator, './', a name that recurs below itself
    tmp = tempfile.mkdtemp(prefix="vc16d_")
    cwd = os.getcwd()
    try:
        spec = {"r1.cfg": (good % (1, 1, 1)).encode(), "configs/r2.cfg": (good % (2, 2, 2)).encode(),
                "site2/configs/r3.cfg": (good % (3, 3, 3)).encode(), "site1/r4.cfg": (good % (4, 4, 4)).encode()}
        tree(os.path.join(tmp, "configs"), spec)
        os.chdir(tmp)
        for k, (i_, o_) in enumerate([("configs", "anon"), ("configs/", "anon1"), ("./configs", "./anon2"),
                                      ("configs", "anon3/"), (os.path.join(tmp, "configs"), "anon4")]):
            note(("spelling", i_, o_))
            logging.disable(logging.CRITICAL)
            try:
                anonymize_files(i_, o_, **kw)
            finally:
                logging.disable(logging.NOTSET)
            got = listing(os.path.join(tmp, o_))
            if set(got) != set(spec):
                fail("C16.relative_path", {"input": i_, "output": o_, "expected": sorted(spec), "got": sorted(got)},
                     "output files are not at the inputs' relative paths", "file_list")
        stray = [p_ for p_ in os.listdir(tmp) if p_ not in ("configs", "anon", "anon1", "anon2", "anon3", "anon4")]
        if stray:
            fail("C16.extra", {"extra": sorted(stray)}, "something was written outside the output directory", "frame")
    finally:
        os.chdir(cwd)
        shutil.rmtree(tmp, ignore_errors=True)
    # single file API and in-place refusal
    tmp = tempfile.mkdtemp(prefix="vc16c_")
    try:
        src = os.path.join(tmp, "one.cfg")
        with open(src, "w") as f:
            f.write(good % (7, 7, 7))
        anonymize_files(src, os.path.join(tmp, "one.out"), **kw)
        fa = FileAnonymizer(**kw)
        fa.anonymize_file(src, os.path.join(tmp, "one.out2"))
        note("single")
        if open(os.path.join(tmp, "one.out")).read() != open(os.path.join(tmp, "one.out2")).read():
            fail("C16.entrypoints", {}, "anonymize_files and anonymize_file differ on a single file", "anonymize_file")
        # the same through every entry point, byte for byte, also for CRLF / CR line ends and no final newline
        for k, raw in enumerate([(good % (8, 8, 8)).replace("\n", "\r\n").encode(), b"password a1\rpassword b2\r",
                                 (good % (9, 9, 9)).encode()[:-1], "hostname zürich\npassword pw\n".encode()]):
            src2 = os.path.join(tmp, "crlf%d.cfg" % k)
            with open(src2, "wb") as f:
                f.write(raw)
            note(("entrypoints", k))
            anonymize_files(src2, os.path.join(tmp, "e%d.dirapi" % k), **kw)
            FileAnonymizer(**kw).anonymize_file(src2, os.path.join(tmp, "e%d.fileapi" % k))
            o = io.StringIO()
            with open(src2, "r") as fh:
                FileAnonymizer(**kw).anonymize_io(fh, o)
            with open(os.path.join(tmp, "e%d.stream" % k), "w") as fh:
                fh.write(o.getvalue())
            blobs = {nm: open(os.path.join(tmp, "e%d.%s" % (k, nm)), "rb").read() for nm in ("dirapi", "fileapi", "stream")}
            if len(set(blobs.values())) != 1:
                fail("C16.entrypoints", {"input": repr(raw[:60]), "outputs": {a: repr(b[:60]) for a, b in blobs.items()}},
                     "directory API, single-file API and stream API differ", "anonymize_file")
        d = os.path.join(tmp, "d")
        tree(d, {"x.cfg": (good % (1, 1, 1)).encode()})
        before = listing(d)
        try:
            logging.disable(logging.CRITICAL)
            anonymize_files(d, d, **kw)
        except ValueError:
            pass
        finally:
            logging.disable(logging.NOTSET)
        note("inplace")
        if any(len(v) == 0 for v in listing(d).values()) or set(before) - set(listing(d)):
            fail("C16.inplace", {}, "output == input truncated the input files", "anonymize_files")
    finally:
        shutil.rmtree(tmp, ignore_errors=True)


def run_cli(argv, cfg=None):
    tmp = tempfile.mkdtemp(prefix="vc19_")
    try:
        ind, outd = os.path.join(tmp, "in"), os.path.join(tmp, "out")
        tree(ind, {"r.cfg": b"ip address 10.1.2.3 255.255.255.0\nip address 11.22.33.44 1.2.3.4\npassword hunter2\nrouter bgp 65001 edge\n"})
        args = ["-i", ind, "-o", outd] + list(argv)
        if cfg is not None:
            cp = os.path.join(tmp, "n.cfg")
            with open(cp, "w") as f:
                f.write(cfg)
            args += ["-c", cp]
        args = [a.replace("@DUMP@", os.path.join(tmp, "dump.txt")) for a in args]
        err = None
        logging.disable(logging.CRITICAL)
        try:
            cli.main(args)
        except SystemExit as e:
            err = "SystemExit(%s)" % e.code
        except Exception as e:  # noqa
            err = "%s: %s" % (type(e).__name__, e)
        finally:
            logging.disable(logging.NOTSET)
        written = listing(tmp)
        written = {k: v for k, v in written.items() if not k.startswith("in/") and k != "n.cfg"}
        return err, written
    finally:
        shutil.rmtree(tmp, ignore_errors=True)


def c19():
    rejects = [["-u", "-a", "-s", "x"], ["-u"], ["-u", "-p"], ["-d", "@DUMP@"], ["-d", "@DUMP@", "-p"], ["-d", "@DUMP@", "-u", "-s", "x"],
               ["-a", "--preserve-host-bits", "33"], ["-a", "--preserve-host-bits", "-1"], ["-a", "--preserve-host-bits", "x"],
               ["-d", "@DUMP@", "-w", "edge", "-n", "65001"]]
    for r in rejects:
        err, written = run_cli(r)
        note(("reject", tuple(r)))
        if err is None or written:
            fail("C19.reject", {"argv": r, "error": err, "written": sorted(written)}, "contradictory options accepted or something written", "main")
    # rejection also when the options come from a config file / both
    for argv, cfg in ((["-s", "x"], "undo=true\ndump-ip-map=@DUMP@\n"), (["-u"], "salt=x\ndump-ip-map=@DUMP@\n"), ([], "undo=true\n")):
        err, written = run_cli(argv, cfg)
        note(("reject-cfg", tuple(argv), cfg))
        if err is None or written:
            fail("C19.reject", {"argv": argv, "config": cfg, "error": err, "written": sorted(written)}, "rejected combination accepted via config file", "main")
    err, written = run_cli([])
    note("nofeature")
    if written:
        fail("C19.nofeature", {"written": sorted(written)}, "no anonymization option but something was written", "main")
    for bad in (["-o", "x"], ["-i", "x"]):
        logging.disable(logging.CRITICAL)
        try:
            cli.main(bad)
            fail("C19.missing_io", {"argv": bad}, "missing input/output accepted", "main")
        except (SystemExit, ValueError, Exception):
            pass
        finally:
            logging.disable(logging.NOTSET)
    # command line == config file, command line wins
    pairs = [(["-a", "-s", "k"], "anonymize-ips=true\nsalt=k\n"), (["-p", "-s", "k", "-w", "edge"], "anonymize-passwords=true\nsalt=k\nsensitive-words=edge\n"),
             (["-a", "-s", "k", "--preserve-host-bits", "4"], "anonymize-ips=true\nsalt=k\npreserve-host-bits=4\n"),
             (["-a", "-s", "k", "--preserve-prefixes", "11.0.0.0/8", "-n", "65001"], "anonymize-ips=true\nsalt=k\npreserve-prefixes=11.0.0.0/8\nas-numbers=65001\n")]
    for argv, cfg in pairs:
        e1, w1 = run_cli(argv)
        e2, w2 = run_cli([], cfg)
        e3, w3 = run_cli(argv, cfg.replace("salt=k", "salt=other"))
        note(("equiv", tuple(argv)))
        if e1 or e2 or w1 != w2:
            fail("C19.configfile", {"argv": argv, "config": cfg, "errors": [e1, e2]}, "command line and config file differ", "_parse_args")
        if e3 or w1 != w3:
            fail("C19.precedence", {"argv": argv}, "command line does not win over the config file", "_parse_args")
    # defaults: 8 host bits for both families, class + private prefixes; private-address equivalence
    e1, w1 = run_cli(["-a", "-s", "k"])
    e2, w2 = run_cli(["-a", "-s", "k", "--preserve-host-bits", "8", "--preserve-prefixes",
                      "0.0.0.0/1,128.0.0.0/2,192.0.0.0/3,224.0.0.0/4,10.0.0.0/8,172.16.0.0/12,192.168.0.0/16"])
    note("defaults")
    if e1 or e2 or w1 != w2:
        fail("C19.defaults", {"errors": [e1, e2]}, "documented defaults are not what is applied", "_parse_args")
    fa = FileAnonymizer(anon_pwd=False, anon_ip=True, salt="k", preserve_prefixes=list(IpAnonymizer.DEFAULT_PRESERVED_PREFIXES),
                        preserve_suffix_v4=8, preserve_suffix_v6=8)
    o = io.StringIO()
    fa.anonymize_io(io.StringIO("ip address 10.1.2.3 255.255.255.0\nip address 11.22.33.44 1.2.3.4\npassword hunter2\nrouter bgp 65001 edge\n"), o)
    if not e1 and w1.get("out/r.cfg", b"").decode() != o.getvalue():
        fail("C19.defaults", {}, "CLI defaults differ from 8 host bits (both families) + default prefixes through the API", "main")
    e1, w1 = run_cli(["-a", "-s", "k", "--preserve-private-addresses"])
    e2, w2 = run_cli(["-a", "-s", "k", "--preserve-addresses", "10.0.0.0/8,172.16.0.0/12,192.168.0.0/16"])
    e3, w3 = run_cli(["-a", "-s", "k", "--preserve-private-addresses", "--preserve-addresses", "11.22.33.44"])
    e4, w4 = run_cli(["-a", "-s", "k", "--preserve-addresses", "11.22.33.44,10.0.0.0/8,172.16.0.0/12,192.168.0.0/16"])
    note("private")
    if e1 or e2 or w1 != w2 or e3 or e4 or w3 != w4:
        fail("C19.private", {"errors": [e1, e2, e3, e4]}, "--preserve-private-addresses is not equivalent to listing the RFC 1918 networks", "main")
    e1, w1 = run_cli(["-a", "-s", "k", "-d", "@DUMP@"])
    note("dump")
    if e1 or "dump.txt" not in w1:
        fail("C19.dump", {"error": e1}, "map dump with IP anonymization failed", "main")


CHECKS = {"C07": [c07, c07_multi, c07_corpus], "C08": [c08, c08_multi, lambda: c_corpus("C08")], "C09": [c09, lambda: c_corpus("C09")], "C10": [c10, c10_with_secrets, c10_unicode], "C12": [c12, c12_verbatim, c12_masks, lambda: c_corpus("C12")], "C13": [c13], "C14": [c14], "C15": [c15],
          "C16": [c16], "C19": [c19]}
BOUNDS = {
    "C07": "25 line forms x 7 secret format classes x 2 secret variants (same equality pattern), output and INFO+ log compared; 8 standalone hash tokens; 5 one-line templates carrying two secrets of the same form",
    "C08": "60/1500 random runs: 2-5 secrets of mixed classes over 3-8 lines, 6 enclosing-text variants, $9$ re-encodings under random salts; one run over two streams and over a two-file directory with shared secrets in different positions; 5 lines with two secrets of one form on the same line; a $9$ and a $1$ secret in 8 quoting / punctuation contexts",
    "C09": "4 netconan salts x 5 line forms x 7 classes x 2/8 secrets x 8 enclosing-text variants; type 7 decoded, $1$ salt length, $6$ shape, $9$ decrypted",
    "C10": "5 word lists (prefixes/substrings, mixed case, a regex metacharacter) x 3 reserved sets x 2/3 hash seeds (subprocesses) x 11 lines; 8 lines mixing words with secrets and scrubbed forms, secrets on and off; 5 words with non-ASCII letters in their one-to-one letter cases",
    "C12": "15 feature subsets x 5 texts (blank lines, tabs, CRLF, no final newline, empty); per-line independence for 17 lines; 11 tokens with backslash / template characters x 5 secret line forms carried over verbatim; 10 zero-padded / canonical mask tokens x 6 line forms x 2 salts and 3 zero-padded addresses of a preserved network carried over as written",
    "C13": "a 6-file directory run under 3/5 hash seeds; 4 option sets x 2/4 hash seeds in fresh processes + in-process repeat after an unrelated anonymizer + caller's lists; no-salt path",
    "C14": "7 salts (empty, non-alphabet first character, non-ASCII) x 5 feature sets x ~75/650 hostile lines (backslashes, metacharacters, malformed hashes, 3000 quotes)",
    "C15": "3 option sets x 35 feature/undo combinations: combined run vs chained single-feature runs on a 30-line corpus incl. IPv6 with dotted tail",
    "C16": "4 trees (nesting, spaces/Unicode, dot files, undecodable bytes early/late) x pre-existing output incl. a directory in the way; single-file API; in-place refusal; 5 spellings of the input/output paths (relative, trailing separator, ./, recurring directory name, absolute)",
    "C19": "13 rejected combinations (command line / config file / both), no-feature run, 4 command-line/config equivalences + precedence, defaults, private-address equivalence",
}


def guarded(f):
    try:
        f()
    except Exception as e:  # noqa
        tb = traceback.extract_tb(sys.exc_info()[2])
        where = [fr for fr in tb if "netconan" in fr.filename and "rt_files" not in fr.filename]
        loc = "%s:%d" % (where[-1].filename.split("/")[-1], where[-1].lineno) if where else ""
        fail(ARGS["property"] + ".exception", {"check": getattr(f, "__name__", "check"), "last_case": LAST[0]},
             "%s: %s at %s" % (type(e).__name__, e, loc), "safe")


def main():
    pid = ARGS["property"]
    logging.getLogger().setLevel(logging.INFO)
    for f in CHECKS.get(pid, []):
        guarded(f)
    if ARGS.get("replay"):
        w = ARGS["replay"]
        fails = [x for x in FAILS if x["tag"] == w.get("tag")]
        print(json.dumps({"evaluations": EVALS[0], "failures": fails}, default=str))
        return
    print(json.dumps({"evaluations": EVALS[0], "distinct_nontrivial": len(DISTINCT), "failures": FAILS,
                      "samples": SAMPLES, "bound": BOUNDS.get(pid, ""),
                      "rule": "deterministic enumeration/generation (seeded); a case is one input (line / text / "
                              "tree / argument vector with options); distinct = distinct cases"}, default=str))


main()
