"""Semantics of operators, built-ins, string/list/dict methods and calls for the pyvc executor.

Every library model that is an *assumption* about a dependency registers its tag in
engine.used_assumptions (reported as trusted base).
"""
import ast
import string as _string
import z3

from .sym import *  # noqa
from .engine import (Unsupported, ReturnSig, RaiseSig, BreakSig, ContinueSig, PathCut,
                     zint, zstr, bits_lit, is_bitstr)
from .repo import RePattern, EnumMember


class ListV:
    """Python list with concrete spine (items are symbolic values)."""

    def __init__(self, items):
        self.items = list(items)


# ---------------------------------------------------------------- uninterpreted symbols
_UF = {}


def uf(name, *sorts):
    key = (name,) + tuple(s.sexpr() if hasattr(s, "sexpr") else str(s) for s in sorts)
    if key not in _UF:
        _UF[key] = z3.Function(name, *sorts)
    return _UF[key]


S = z3.StringSort()
I = z3.IntSort()
B = z3.BoolSort()
BitsS = z3.SeqSort(z3.BoolSort())


def pow2(t):
    return uf("pow2", I, I)(t)


def Bfun(n, L):
    return uf("B", I, I, BitsS)(n, L)


def Vfun(b):
    return uf("V", BitsS, I)(b)


def exc_matches(exc, caught):
    if caught in ("BaseException", "Exception"):
        return True
    if exc == caught:
        return True
    hier = {"KeyError": "LookupError", "IndexError": "LookupError", "AddressValueError": "ValueError",
            "NetmaskValueError": "ValueError", "UnicodeDecodeError": "ValueError", "FileNotFoundError": "OSError",
            "IsADirectoryError": "OSError", "error": "Exception", "ArgumentError": "Exception"}
    e = exc
    while e in hier:
        e = hier[e]
        if e == caught:
            return True
    return False


# ---------------------------------------------------------------- helpers
def cell(eng, v):
    """Dereference heap cell for map/bimap/list refs."""
    if isinstance(v, Ref) and v.ty.kind in ("map", "bimap", "list", "setcell"):
        return eng.heap()[v.rid]
    return v


def alloc(eng, ty, content, hint="cell"):
    rid = eng.fresh_name(hint)
    eng.st.heap[rid] = content
    return Ref(rid, ty)


def make_list(eng, items):
    return alloc(eng, Ty("list"), ListV(items), "list")


def seq_kind(v):
    if isinstance(v, P) and (v.ty in (STR, BITS) or v.ty.kind == "seq"):
        return v.ty
    return None


def to_str(eng, v):
    """Python str(v)"""
    if isinstance(v, Conc):
        return Conc(str(v.v))
    if isinstance(v, P):
        if v.ty in (STR, BITS):
            return v
        if v.ty == INT:
            return StrOfInt(v.term)
        if v.ty.kind == "opq":
            # str() of an opaque library object: uninterpreted rendering (assumed contract of the library)
            h = eng.reg.ext.get("str.of." + v.ty.args[0])
            if h is not None:
                return h(eng, [v], {}, None)
            eng.used_assumptions.add("E-str-of-" + v.ty.args[0])
            return P(STR, uf("str_" + v.ty.args[0], sort_of(v.ty), S)(v.term))
    if isinstance(v, StrOfInt):
        return v
    raise Unsupported("str() of %r" % (v,))


def as_seq_term(eng, v, ty):
    return eng.term(v, ty)


def binop_add(eng, a, b, node):
    if isinstance(a, OptV) or isinstance(b, OptV):
        un = []
        for x in (a, b):
            if isinstance(x, OptV):
                if not eng.spec_mode:
                    eng.safety("add-with-None", x.some, node)
                x = x.val
            un.append(x)
        a, b = un
    if isinstance(a, Conc) and isinstance(b, Conc):
        return Conc(a.v + b.v)
    ta = a.ty if isinstance(a, P) else None
    tb = b.ty if isinstance(b, P) else None
    # list concatenation
    ca, cb = cell(eng, a), cell(eng, b)
    if (isinstance(ca, ListV) or isinstance(cb, ListV)) and not (isinstance(ca, P) or isinstance(cb, P)):
        la = ca.items if isinstance(ca, ListV) else [Conc(x) for x in ca.v]
        lb = cb.items if isinstance(cb, ListV) else [Conc(x) for x in cb.v]
        return make_list(eng, la + lb)
    if (isinstance(a, Ref) and a.ty.kind == "list") or (isinstance(b, Ref) and b.ty.kind == "list"):
        sa, sb = seq_of(eng, a), seq_of(eng, b)
        if sa is None:
            return b
        if sb is None:
            return a
        return alloc(eng, Ty("list", sa.ty.args[0]), P(sa.ty, z3.Concat(sa.term, sb.term)), "cell.cat")
    if ta == INT or tb == INT or (ta is None and tb is None and not isinstance(a, StrOfInt) and not isinstance(b, StrOfInt)
                                  and isinstance(getattr(a, "v", 0), int) and isinstance(getattr(b, "v", 0), int)):
        return P(INT, eng.term(a, INT) + eng.term(b, INT))
    # string-like
    ty = None
    for t in (ta, tb):
        if t in (STR, BITS) or (t is not None and t.kind == "seq"):
            ty = t if ty is None or ty == t else "mix"
    if ty == "mix":
        raise Unsupported("concatenation of str and bit-str")
    if ty is None:
        # StrOfInt + Conc etc.
        ty = STR
        for x in (a, b):
            if isinstance(x, Conc) and isinstance(x.v, str) and not is_bitstr(x.v):
                ty = STR
    if ty == BITS:
        for x in (a, b):
            if isinstance(x, Conc) and not is_bitstr(x.v):
                raise Unsupported("bit-string + non-bit literal %r" % (x.v,))
    x, y = eng.term(a, ty), eng.term(b, ty)
    return P(ty, z3.Concat(x, y))


def binop(eng, op, a, b, node):
    if eng.bv_mode and (is_bv(a) or is_bv(b)):
        return eng.bv_binop(op, a, b, node)
    if isinstance(op, ast.Add):
        return binop_add(eng, a, b, node)
    if isinstance(a, Conc) and isinstance(b, Conc):
        try:
            import operator
            f = {ast.Sub: operator.sub, ast.Mult: operator.mul, ast.FloorDiv: operator.floordiv,
                 ast.Mod: operator.mod, ast.BitXor: operator.xor, ast.BitAnd: operator.and_,
                 ast.BitOr: operator.or_, ast.RShift: operator.rshift, ast.LShift: operator.lshift,
                 ast.Pow: operator.pow}[type(op)]
            return Conc(f(a.v, b.v))
        except KeyError:
            raise Unsupported("binop %s" % type(op).__name__)
    if isinstance(op, ast.Mult):
        # "0" * n
        if isinstance(a, Conc) and isinstance(a.v, str) and len(a.v) == 1:
            n = eng.term(b, INT)
            eng.used_assumptions.add("E-strrepeat")
            r = uf("str_repeat", S, I, S)(zstr(a.v), n)
            return P(STR, r)
        if isinstance(a, Conc) and isinstance(a.v, int) or isinstance(b, Conc) and isinstance(b.v, int):
            return P(INT, eng.term(a, INT) * eng.term(b, INT))
        if eng.bv_mode:
            return P(INT, eng.term(a, INT) * eng.term(b, INT))
        raise Unsupported("non-linear multiplication")
    x, y = eng.term(a, INT), eng.term(b, INT)
    if isinstance(op, ast.Sub):
        return P(INT, x - y)
    if isinstance(op, (ast.FloorDiv, ast.Mod)):
        if isinstance(b, Conc) and isinstance(b.v, int) and b.v > 0:
            pass
        else:
            # python floor semantics == SMT div/mod only for positive divisor
            if eng.may_catch("ZeroDivisionError") and not eng.spec_mode:
                if not eng.decide(y != 0):
                    raise RaiseSig("ZeroDivisionError")
            eng.safety("div[positive divisor]", y > 0, node)
        return P(INT, x / y if isinstance(op, ast.FloorDiv) else x % y)
    if isinstance(op, ast.BitXor):
        # only on proven bits
        if not eng.spec_mode:
            eng.emit("%s#enc.bitxor" % eng.cur_func, z3.And(x >= 0, x <= 1, y >= 0, y <= 1), meta={"kind": "encoding"})
        return P(INT, z3.If(x == y, zint(0), zint(1)))
    if isinstance(op, ast.BitAnd):
        if isinstance(b, Conc) and b.v == 1:
            if not eng.spec_mode:
                eng.emit("%s#enc.bitand1" % eng.cur_func, x >= 0, meta={"kind": "encoding"})
            return P(INT, x % 2)
        raise Unsupported("bit-and outside bit-vector mode")
    raise Unsupported("binop %s" % type(op).__name__)


def is_bv(v):
    return isinstance(v, P) and v.ty.kind == "bv"


def is_none(v):
    return isinstance(v, NoneV) or (isinstance(v, Conc) and v.v is None)


def compare(eng, op, a, b, node):
    if isinstance(op, (ast.Is, ast.IsNot)):
        if is_none(b) or is_none(a):
            x = a if is_none(b) else b
            if isinstance(x, OptV):
                r = z3.Not(x.some)
            elif is_none(x):
                r = z3.BoolVal(True)
            else:
                r = z3.BoolVal(False)
        else:
            raise Unsupported("`is` on non-None")
        return z3.Not(r) if isinstance(op, ast.IsNot) else r
    if isinstance(op, (ast.Eq, ast.NotEq)):
        r = eng.equal(a, b)
        return z3.Not(r) if isinstance(op, ast.NotEq) else r
    if isinstance(op, (ast.In, ast.NotIn)):
        r = contains(eng, b, a, node)
        return z3.Not(r) if isinstance(op, ast.NotIn) else r
    if isinstance(a, Conc) and isinstance(b, Conc):
        import operator
        f = {ast.Lt: operator.lt, ast.LtE: operator.le, ast.Gt: operator.gt, ast.GtE: operator.ge}[type(op)]
        return z3.BoolVal(f(a.v, b.v))
    if is_bv(a) or is_bv(b):
        w = (a if is_bv(a) else b).ty.args[0]
        x, y = eng.bv_term(a, w), eng.bv_term(b, w)
        return {ast.Lt: z3.ULT, ast.LtE: z3.ULE, ast.Gt: z3.UGT, ast.GtE: z3.UGE}[type(op)](x, y)
    x, y = eng.term(a, INT), eng.term(b, INT)
    if isinstance(op, ast.Lt):
        return x < y
    if isinstance(op, ast.LtE):
        return x <= y
    if isinstance(op, ast.Gt):
        return x > y
    if isinstance(op, ast.GtE):
        return x >= y
    raise Unsupported("comparison")


def contains(eng, cont, item, node):
    c = cell(eng, cont)
    if isinstance(c, Conc):
        v = c.v
        if isinstance(item, Conc):
            return z3.BoolVal(item.v in v)
        if isinstance(v, str):
            return z3.Contains(zstr(v), eng.term(item, STR))
        if isinstance(v, (dict, list, tuple)) and len(v) > 8 and all(isinstance(x, str) for x in v) \
                and not isinstance(item, OptV):
            tb = (table_for_dict(v) if isinstance(v, dict) else None) or StrTable.get(list(v))
            use_table(eng, tb)
            return tb.mem(eng.term(item, STR))
        if isinstance(v, (dict, list, tuple, set, frozenset)):
            keys = list(v.keys()) if isinstance(v, dict) else list(v)
            if len(keys) > 300:
                raise Unsupported("membership in large constant container")
            if isinstance(item, OptV):
                return z3.And(item.some, z3.Or([eng.equal(item.val, Conc(k)) for k in keys] or [z3.BoolVal(False)]))
            return z3.Or([eng.equal(item, Conc(k)) for k in keys] or [z3.BoolVal(False)])
    if isinstance(c, MapV):
        if isinstance(item, OptV):
            return z3.And(item.some, z3.Select(c.dom, eng.term(item.val, c.kt)))
        if is_none(item):
            return z3.BoolVal(False)
        return z3.Select(c.dom, eng.term(item, c.kt))
    if isinstance(c, BimapV):
        return z3.Select(c.fwd.dom, eng.term(item, c.fwd.kt))
    if isinstance(c, Special) and c.tag == "emptyset":
        return z3.BoolVal(False)
    if isinstance(c, Special) and c.tag == "anyset":
        # a set modified in a loop and havoc'd: membership is unknown
        return z3.Bool(eng.fresh_name("anyset.mem"))
    if isinstance(c, P) and c.ty.kind == "set":
        if isinstance(item, OptV):
            return z3.And(item.some, z3.Select(c.term, eng.term(item.val, c.ty.args[0])))
        return z3.Select(c.term, eng.term(item, c.ty.args[0]))
    if isinstance(c, P) and c.ty == STR:
        return z3.Contains(c.term, eng.term(item, STR))
    if isinstance(c, P) and c.ty.kind == "seq":
        return z3.Contains(c.term, z3.Unit(eng.term(item, c.ty.args[0])))
    if isinstance(c, ListV):
        return z3.Or([eng.equal(item, x) for x in c.items] or [z3.BoolVal(False)])
    if isinstance(c, P) and c.ty.kind == "opq":
        return eng.reg.ext_call(eng, "%s.contains" % c.ty.args[0], [c, item], {}, node)
    raise Unsupported("membership in %r" % (c,))


# ---------------------------------------------------------------- slicing / indexing
def norm_index(n, i):
    """python index normalisation for a symbolic int term i on length n"""
    return z3.If(i < 0, n + i, i)


def clamp_bound(n, b):
    return z3.If(b < 0, z3.If(n + b < 0, zint(0), n + b), z3.If(b > n, n, b))


def slice_(eng, base, lo, hi, node):
    c = cell(eng, base)
    if isinstance(c, Conc) and (lo is None or isinstance(lo, Conc)) and (hi is None or isinstance(hi, Conc)):
        return Conc(c.v[(lo.v if lo else None):(hi.v if hi else None)])
    if isinstance(c, ListV) and (lo is None or isinstance(lo, Conc)) and (hi is None or isinstance(hi, Conc)):
        return make_list(eng, c.items[(lo.v if lo else None):(hi.v if hi else None)])
    if isinstance(c, Conc) and isinstance(c.v, str):
        c = P(STR, zstr(c.v))
    ty = seq_kind(c)
    if ty is None:
        raise Unsupported("slice of %r" % (c,))
    s = c.term
    n = z3.Length(s)
    # SMT-LIB extract(s,i,k) is empty for i<0, i>=|s| or k<=0 and stops at |s|: so only negative
    # (from-the-end) bounds need translating; no clamping from above is required.
    if lo is None or (isinstance(lo, Conc) and lo.v == 0):
        l = zint(0)
    elif isinstance(lo, Conc) and lo.v > 0:
        l = zint(lo.v)
    elif isinstance(lo, Conc):
        k = -lo.v
        l = z3.If(n >= k, n - k, zint(0))
    else:
        lt = eng.term(lo, INT)
        l = z3.If(lt < 0, z3.If(n + lt < 0, zint(0), n + lt), lt)
    if hi is None:
        h = n
    elif isinstance(hi, Conc) and hi.v >= 0:
        h = zint(hi.v)
    elif isinstance(hi, Conc):
        h = n - (-hi.v)
    else:
        ht = eng.term(hi, INT)
        h = z3.If(ht < 0, n + ht, ht)
    ln = z3.simplify(h - l)
    return P(ty, z3.SubSeq(s, l, ln) if ty != STR else z3.SubString(s, l, ln))


def index(eng, base, idx, node):
    if isinstance(base, OptV):
        if not eng.spec_mode:
            eng.safety("subscript-on-None", base.some, node)
        base = base.val
    c = cell(eng, base)
    if isinstance(c, Conc):
        v = c.v
        if isinstance(idx, Conc):
            try:
                return Conc(v[idx.v])
            except (KeyError, IndexError) as e:
                raise RaiseSig(type(e).__name__)
        if isinstance(v, dict):
            return const_dict_lookup(eng, v, idx, node)
        if isinstance(v, (list, tuple)):
            return const_list_index(eng, v, idx, node)
        if isinstance(v, str):
            c = P(STR, zstr(v))
    if isinstance(c, ListV):
        if isinstance(idx, Conc):
            try:
                return c.items[idx.v]
            except IndexError:
                raise RaiseSig("IndexError")
        sq = seq_of(eng, base)
        if sq is None:
            raise Unsupported("symbolic index into empty list")
        c = sq
    if isinstance(c, TupV):
        if isinstance(idx, Conc):
            return c.items[idx.v]
        raise Unsupported("symbolic tuple index")
    if isinstance(c, MapV):
        k = eng.term(idx, c.kt)
        if eng.may_catch("KeyError") and not eng.spec_mode:
            if not eng.decide(z3.Select(c.dom, k)):
                raise RaiseSig("KeyError")
        else:
            eng.safety("key", z3.Select(c.dom, k), node)
        return P(c.vt, z3.Select(c.val, k))
    if isinstance(c, BimapV):
        return index(eng, c.fwd, idx, node)
    ty = seq_kind(c)
    if ty is not None:
        s = c.term
        n = z3.Length(s)
        if isinstance(idx, Conc):
            i = idx.v
            pos = n + i if i < 0 else zint(i)
            ok = (n >= -i) if i < 0 else (n > i)
        else:
            it = eng.term(idx, INT)
            pos = norm_index(n, it)
            ok = z3.And(pos >= 0, pos < n)
        if eng.may_catch("IndexError") and not eng.spec_mode:
            if not eng.decide(ok):
                raise RaiseSig("IndexError")
        else:
            eng.safety("index", ok, node)
        if ty == STR:
            return P(STR, z3.SubString(s, pos, zint(1)))
        if ty == BITS:
            return P(BITS, z3.SubSeq(s, pos, zint(1)))
        return P(ty.args[0], s[pos])
    if isinstance(c, Special):
        return eng.reg.special_index(eng, c, idx, node)
    raise Unsupported("index into %r" % (c,))


class StrTable:
    """A constant list of pairwise distinct strings (e.g. the 65-character alphabet) as a pair of mutually
    inverse uninterpreted functions; the quantified facts are consequences of the concrete table, which is
    checked here by evaluation (a table that is not injective gets no inverse facts)."""
    _cache = {}

    def __init__(self, items):
        import hashlib
        self.items = list(items)
        h = hashlib.sha1(repr(self.items).encode()).hexdigest()[:8]
        self.n = len(self.items)
        self.tab = uf("tab_" + h, I, S)
        self.idx = uf("idx_" + h, S, I)
        self.h = h
        lens = set(len(x) for x in self.items)
        self.width = lens.pop() if len(lens) == 1 else None
        self.injective = len(set(self.items)) == self.n
        self.schemas = self._schemas()

    @classmethod
    def get(cls, items):
        key = tuple(items)
        if key not in cls._cache:
            cls._cache[key] = StrTable(items)
        return cls._cache[key]

    def mem(self, c):
        """c is an entry of the table  <=>  tab(idx(c)) == c with idx(c) in range (exact, given the entry facts)"""
        if self.injective:
            return z3.And(self.idx(c) >= 0, self.idx(c) < self.n, self.tab(self.idx(c)) == c)
        return z3.Or([c == zstr(x) for x in self.items])

    def mem_re(self):
        return z3.Union(*[z3.Re(zstr(x)) for x in self.items])

    def _schemas(self):
        out = []
        facts = []
        for j, x in enumerate(self.items):
            facts.append(self.tab(zint(j)) == zstr(x))
            if self.injective:
                facts.append(self.idx(zstr(x)) == j)
        ent = Schema("table.%s.entries" % self.h, [], z3.And(facts), triggers=None, origin="const")
        ent.lits = set(self.items)    # only instantiated (QF path) when one of these literals occurs in the VC
        out.append(ent)
        i = z3.Int("tb.%s.i" % self.h)
        c = z3.Const("tb.%s.c" % self.h, S)
        body_i = [self.mem(self.tab(i))]
        if self.width is not None:
            body_i.append(z3.Length(self.tab(i)) == self.width)
        if self.injective:
            body_i.append(self.idx(self.tab(i)) == i)
            out.append(Schema("table.%s.idx" % self.h, [c], z3.Implies(
                self.mem(c), z3.And(self.idx(c) >= 0, self.idx(c) < self.n, self.tab(self.idx(c)) == c)),
                triggers=[[self.idx(c)]], origin="const"))
        out.append(Schema("table.%s.tab" % self.h, [i], z3.Implies(z3.And(i >= 0, i < self.n), z3.And(body_i)),
                          triggers=[[self.tab(i)]], origin="const"))
        if self.injective and self.width == 1:
            # link with the regular-language view (character class of the table): checked by construction
            out.append(Schema("table.%s.class" % self.h, [c], z3.InRe(c, self.mem_re()) == self.mem(c),
                              triggers=[[self.idx(c)]], origin="const"))
        return out


def use_table(eng, tb):
    d = eng.__dict__.setdefault("table_schemas", {})
    d[tb.h] = tb.schemas


def table_for_dict(d):
    """dict {str: int} that is a bijection onto 0..n-1 -> the StrTable of its keys ordered by value"""
    keys = list(d.keys())
    vals = list(d.values())
    if keys and all(isinstance(k, str) for k in keys) and sorted(vals) == list(range(len(keys))) \
            and all(isinstance(v, int) and not isinstance(v, bool) for v in vals):
        inv = [None] * len(keys)
        for k, v in d.items():
            inv[v] = k
        return StrTable.get(inv)
    return None


def const_dict_lookup(eng, d, idx, node):
    tb = table_for_dict(d) if len(d) > 8 else None
    if tb is not None and tb.injective:
        use_table(eng, tb)
        k = eng.term(idx, STR)
        present = tb.mem(k)
        if eng.may_catch("KeyError") and not eng.spec_mode:
            if not eng.decide(present):
                raise RaiseSig("KeyError")
        else:
            eng.safety("key", present, node)
        return P(INT, tb.idx(k))
    keys0 = list(d.keys())
    if len(d) > 8 and keys0 and all(isinstance(x, str) for x in keys0) and all(
            isinstance(v, int) and not isinstance(v, bool) for v in d.values()):
        # general str -> int table: uninterpreted function with its graph as ground facts and its range
        tbk = StrTable.get(keys0)
        use_table(eng, tbk)
        import hashlib
        h = hashlib.sha1(repr(sorted(d.items())).encode()).hexdigest()[:8]
        f = uf("map_" + h, S, I)
        k = eng.term(idx, STR)
        present = tbk.mem(k)
        if eng.may_catch("KeyError") and not eng.spec_mode:
            if not eng.decide(present):
                raise RaiseSig("KeyError")
        else:
            eng.safety("key", present, node)
        c = z3.Const("mp.%s.c" % h, S)
        lo, hi = min(d.values()), max(d.values())
        eng.__dict__.setdefault("table_schemas", {})["map_" + h] = [
            Schema("map.%s.entries" % h, [], z3.And([f(zstr(a)) == b for a, b in d.items()]), origin="const"),
            Schema("map.%s.range" % h, [c], z3.Implies(tbk.mem(c), z3.And(f(c) >= lo, f(c) <= hi)),
                   triggers=[[f(c)]], origin="const")]
        return P(INT, f(k))
    return const_dict_lookup_ite(eng, d, idx, node)


def const_dict_lookup_ite(eng, d, idx, node):
    """d[idx] for a constant dict and a symbolic key: pointwise function + key-presence obligation."""
    keys = list(d.keys())
    if not keys:
        raise RaiseSig("KeyError")
    kty = STR if isinstance(keys[0], str) else INT
    k = eng.term(idx, kty)
    present = z3.Or([k == eng.term(Conc(x), kty) for x in keys])
    if eng.may_catch("KeyError") and not eng.spec_mode:
        if not eng.decide(present):
            raise RaiseSig("KeyError")
    else:
        eng.safety("key", present, node)
    vals = list(d.values())
    if all(isinstance(v, int) for v in vals):
        acc = zint(vals[-1])
        for kk, vv in list(zip(keys, vals))[-2::-1]:
            acc = z3.If(k == eng.term(Conc(kk), kty), zint(vv), acc)
        return P(INT, acc)
    if all(isinstance(v, str) for v in vals):
        acc = zstr(vals[-1])
        for kk, vv in list(zip(keys, vals))[-2::-1]:
            acc = z3.If(k == eng.term(Conc(kk), kty), zstr(vv), acc)
        return P(STR, acc)
    raise Unsupported("constant dict with compound values and symbolic key")


def const_list_index(eng, lst, idx, node):
    n = len(lst)
    i = eng.term(idx, INT)
    if z3.is_app(i) and i.decl().kind() == z3.Z3_OP_MOD and z3.is_int_value(i.arg(1)) and 0 < i.arg(1).as_long() <= n:
        pos, ok = i, z3.BoolVal(True)      # x % c with 0 < c <= len: always a valid non-negative index
    else:
        pos = z3.If(i < 0, i + n, i)
        ok = z3.And(pos >= 0, pos < n)
    if eng.may_catch("IndexError") and not eng.spec_mode:
        if not eng.decide(ok):
            raise RaiseSig("IndexError")
    else:
        eng.safety("index", ok, node)
    if all(isinstance(v, int) and not isinstance(v, bool) for v in lst):
        acc = zint(lst[-1])
        for j in range(n - 2, -1, -1):
            acc = z3.If(pos == j, zint(lst[j]), acc)
        return P(INT, acc)
    if all(isinstance(v, str) for v in lst):
        if n > 8:
            tb = StrTable.get(lst)
            use_table(eng, tb)
            return P(STR, tb.tab(pos))
        acc = zstr(lst[-1])
        for j in range(n - 2, -1, -1):
            acc = z3.If(pos == j, zstr(lst[j]), acc)
        return P(STR, acc)
    # compound rows (e.g. ENCODING): case split, complete (not bounded)
    j = eng.choose(n, "row")
    eng.st.pc.append(pos == j)
    eng.unrolled.add("case split over %d constant rows at %s" % (n, ast.unparse(node)[:50]))
    return Conc(lst[j])


def setitem(eng, cont, key, val, node):
    if isinstance(cont, InvView):
        bm = eng.st.heap[cont.loc.rid]
        nb = bimap_put(eng, BimapV(bm.inv, bm.fwd), key, val, node)
        eng.st.heap[cont.loc.rid] = BimapV(nb.inv, nb.fwd)
        return
    if not isinstance(cont, Ref):
        raise Unsupported("item assignment on %r" % (cont,))
    c = eng.st.heap[cont.rid]
    if isinstance(c, BimapV):
        eng.st.heap[cont.rid] = bimap_put(eng, c, key, val, node)
    elif isinstance(c, MapV):
        k = eng.term(key, c.kt)
        v = eng.term(val, c.vt)
        size = None if c.size is None else z3.If(z3.Select(c.dom, k), c.size, c.size + 1)
        eng.st.heap[cont.rid] = MapV(c.kt, c.vt, z3.Store(c.dom, k, True), z3.Store(c.val, k, v), size)
    elif isinstance(c, ListV) and isinstance(key, Conc):
        items = list(c.items)
        items[key.v] = val
        eng.st.heap[cont.rid] = ListV(items)
    else:
        raise Unsupported("item assignment on %r" % (c,))


def bimap_put(eng, bm, key, val, node):
    """bidict.__setitem__ per assumed contract E-bidict (ON_DUP_DEFAULT):
    same pair: no-op; value present under another key: ValueDuplicationError; key present: overwrite."""
    eng.used_assumptions.add("E-bidict")
    f, i = bm.fwd, bm.inv
    k = eng.term(key, f.kt)
    v = eng.term(val, f.vt)
    dup = z3.And(z3.Select(i.dom, v), z3.Select(i.val, v) != k)
    eng.safety("bidict_put.no_value_dup", z3.Not(dup), node)
    had = z3.Select(f.dom, k)
    oldv = z3.Select(f.val, k)
    # remove old pair of k from inv (if any and different)
    idom = z3.If(z3.And(had, oldv != v), z3.Store(i.dom, oldv, False), i.dom)
    nf = MapV(f.kt, f.vt, z3.Store(f.dom, k, True), z3.Store(f.val, k, v),
              None if f.size is None else z3.If(had, f.size, f.size + 1))
    ni = MapV(i.kt, i.vt, z3.Store(idom, v, True), z3.Store(i.val, v, k),
              None if i.size is None else z3.If(had, i.size, i.size + 1))
    return BimapV(nf, ni)


def unpack(eng, val, n):
    c = cell(eng, val)
    if isinstance(c, P) and c.ty.kind == "opq":
        h = eng.reg.ext.get("unpack." + c.ty.args[0])
        if h is not None:
            items = h(eng, [c], {}, None)
            if len(items) != n:
                raise RaiseSig("ValueError")
            return items
    if isinstance(c, TupV):
        if len(c.items) != n:
            raise RaiseSig("ValueError")
        return list(c.items)
    if isinstance(c, ListV):
        if len(c.items) != n:
            raise RaiseSig("ValueError")
        return list(c.items)
    if isinstance(c, Conc) and isinstance(c.v, (tuple, list)):
        if len(c.v) != n:
            raise RaiseSig("ValueError")
        return [Conc(x) for x in c.v]
    raise Unsupported("unpacking %r" % (c,))


# ---------------------------------------------------------------- attribute access
STR_METHODS = {"format", "encode", "decode", "startswith", "endswith", "lstrip", "rstrip", "strip", "split",
               "lower", "upper", "join", "hexdigest", "replace", "isdigit", "isalnum", "isalpha"}


def getattr_(eng, base, attr, node):
    if isinstance(base, Ref):
        k = base.ty.kind
        if k == "obj":
            obj = eng.heap()[base.rid]
            if attr in obj.fields:
                return obj.fields[attr]
            ot = eng.reg.objtypes[obj.cls]
            if ot.pyclass:
                mod, cls = ot.pyclass.split(":")
                ci = eng.repo.find_class_const(mod, cls, attr)
                if ci is not None:
                    return Conc(eng.repo.const(ci.module, "%s.%s" % (ci.name, attr)))
                fi = eng.repo.find_method(mod, cls, attr)
                if fi is not None:
                    return Fun("method", recv=base, fi=fi)
            if attr in ot.ext_methods:
                h = ot.ext_methods[attr]
                return Fun("special", handler=lambda e, a, k, n, _b=base, _h=h: _h(e, [_b] + list(a), k, n))
            if eng.spec_mode:
                raise Unsupported("unknown field %s.%s" % (obj.cls, attr))
            raise Unsupported("attribute %s on object %s (not a declared field, constant or method)" % (attr, obj.cls))
        if k == "bimap" and attr == "inv":
            return InvView(base)
        if k in ("map", "bimap", "list", "setcell"):
            return Fun("cellmeth", recv=base, name=attr)
    if isinstance(base, InvView):
        return Fun("cellmeth", recv=base, name=attr)
    if isinstance(base, Mod):
        return module_attr(eng, base.name, attr)
    if isinstance(base, ClsV):
        ci = eng.repo.find_class_const(base.module, base.name, attr)
        if ci is not None:
            return Conc(eng.repo.const(ci.module, "%s.%s" % (ci.name, attr)))
        fi = eng.repo.find_method(base.module, base.name, attr)
        if fi is not None:
            return Fun("method", recv=base, fi=fi)
        raise Unsupported("class attribute %s.%s" % (base.name, attr))
    if isinstance(base, (P, StrOfInt)) or (isinstance(base, Conc) and isinstance(base.v, str)):
        if isinstance(base, P) and base.ty.kind == "opq":
            return eng.reg.opaque_attr(eng, base, attr, node)
        return Fun("strmeth", recv=base, name=attr)
    if isinstance(base, Conc):
        if isinstance(base.v, EnumMember) and attr in ("name", "value"):
            return Conc(getattr(base.v, attr))
        if isinstance(base.v, RePattern):
            if attr == "pattern":
                return Conc(base.v.pattern)
            return Fun("remeth", recv=base, name=attr)
        return Fun("concmeth", recv=base, name=attr)
    if isinstance(base, Special):
        return eng.reg.special_attr(eng, base, attr, node)
    if isinstance(base, Fun) and base.kind == "ext":
        return Fun("ext", name=base.name + "." + attr)
    if isinstance(base, OptV):
        # attribute access on Optional: must be some (AttributeError otherwise)
        eng.safety("attr-on-None", base.some, node)
        return getattr_(eng, base.val, attr, node)
    raise Unsupported("attribute %s on %r" % (attr, base))


def module_attr(eng, modname, attr):
    from .repo import MODULES
    if modname in MODULES:
        key = "%s:%s" % (modname, attr)
        if key in eng.repo.funcs:
            return Fun("repo", fi=eng.repo.funcs[key])
        if key in eng.repo.classes:
            return ClsV(modname, attr)
        if eng.repo.has_const(modname, attr):
            return Conc(eng.repo.const(modname, attr))
        raise Unsupported("module attribute %s.%s" % (modname, attr))
    if modname == "errno" and attr == "EEXIST":
        return Conc(17)
    if modname == "re" and attr in ("IGNORECASE", "I", "MULTILINE", "DOTALL", "VERBOSE", "ASCII"):
        import re as _re
        return Conc(int(getattr(_re, attr)))
    return Fun("ext", name=modname + "." + attr)


# ---------------------------------------------------------------- calls
def eval_args(eng, n):
    args = []
    kwargs = {}
    for a in n.args:
        if isinstance(a, ast.Starred):
            raise Unsupported("*args call")
        args.append(eng.ev(a))
    for k in n.keywords:
        if k.arg is None:
            v = eng.ev(k.value)
            if isinstance(v, Special) and v.tag == "kwargs":
                kwargs.update(v.items)
            else:
                raise Unsupported("**expr call")
        else:
            kwargs[k.arg] = eng.ev(k.value)
    return args, kwargs


def call(eng, n):
    # super().__init__(...)
    if isinstance(n.func, ast.Attribute) and isinstance(n.func.value, ast.Call) \
            and isinstance(n.func.value.func, ast.Name) and n.func.value.func.id == "super":
        return eng.call_super(n)
    f = eng.ev(n.func)
    args, kwargs = eval_args(eng, n)
    return apply(eng, f, args, kwargs, n)


def apply(eng, f, args, kwargs, n):
    if isinstance(f, P) and f.ty.kind == "opq":
        return eng.reg.opaque_call(eng, f, args, kwargs, n)
    if isinstance(f, ClsV):
        return eng.construct(f, args, kwargs, n)
    if not isinstance(f, Fun):
        raise Unsupported("call of %r" % (f,))
    k = f.kind
    if k == "builtin":
        h = globals().get("bi_" + f.name)
        if h is None:
            raise Unsupported("builtin %s" % f.name)
        if f.name in ("int", "ord", "chr", "sum", "reversed"):
            # these raise TypeError on None: an Optional argument must be known to be present
            un = []
            for a in args:
                if isinstance(a, OptV):
                    if not eng.spec_mode:
                        eng.safety("%s-of-None" % f.name, a.some, n)
                    a = a.val
                un.append(a)
            args = un
        return h(eng, args, kwargs, n)
    if k == "repo":
        return eng.call_repo(f.fi, None, args, kwargs, n)
    if k == "method":
        return eng.call_repo(f.fi, f.recv, args, kwargs, n)
    if k == "strmeth":
        return str_method(eng, f.recv, f.name, args, kwargs, n)
    if k == "cellmeth":
        return cell_method(eng, f.recv, f.name, args, kwargs, n)
    if k == "concmeth":
        return conc_method(eng, f.recv, f.name, args, kwargs, n)
    if k == "remeth":
        return eng.reg.ext_call(eng, "re.Pattern." + f.name, [f.recv] + args, kwargs, n)
    if k == "ext":
        return eng.reg.ext_call(eng, f.name, args, kwargs, n)
    if k == "lambda":
        return eng.call_lambda(f, args, kwargs, n)
    if k == "spec":
        return eng.reg.call_spec(eng, f.name, args, n)
    if k == "special":
        return f.handler(eng, args, kwargs, n)
    raise Unsupported("call kind %s" % k)


# ---- builtins
def bi_len(eng, args, kw, n):
    a0 = args[0]
    if isinstance(a0, OptV):
        if not eng.spec_mode:
            eng.safety("len-of-None", a0.some, n)
        a0 = a0.val
    c = cell(eng, a0)
    if isinstance(c, Conc):
        return Conc(len(c.v))
    if isinstance(c, ListV):
        return Conc(len(c.items))
    if isinstance(c, TupV):
        return Conc(len(c.items))
    if seq_kind(c) is not None:
        return P(INT, z3.Length(c.term))
    if isinstance(c, MapV):
        if c.size is None:
            raise Unsupported("len of map without tracked size")
        return P(INT, c.size)
    if isinstance(c, BimapV):
        return P(INT, c.fwd.size)
    if isinstance(c, StrOfInt):
        return P(INT, z3.Length(z3.IntToStr(c.term)))
    raise Unsupported("len of %r" % (c,))


def is_numeral(s):
    return z3.And(z3.Length(s) > 0, z3.InRe(s, z3.Plus(z3.Range("0", "9"))))


def bi_int(eng, args, kw, n):
    a = args[0]
    if len(args) == 2:
        base = args[1]
        if not isinstance(base, Conc):
            raise Unsupported("int with symbolic base")
        if isinstance(a, Conc):
            return Conc(int(a.v, base.v))
        if base.v == 2 and isinstance(a, P) and a.ty == BITS:
            eng.used_assumptions.add("E-format")
            ok = z3.Length(a.term) > 0
            if eng.may_catch("ValueError") and not eng.spec_mode:
                if not eng.decide(ok):
                    raise RaiseSig("ValueError")
            else:
                eng.safety("int(bits,2) nonempty", ok, n)
            return P(INT, Vfun(a.term))
        if base.v == 16 and isinstance(a, P) and a.ty == STR:
            eng.used_assumptions.add("E-hex")
            ok = z3.And(z3.Length(a.term) > 0, z3.InRe(a.term, z3.Plus(hexre())))
            if eng.may_catch("ValueError") and not eng.spec_mode:
                if not eng.decide(ok):
                    raise RaiseSig("ValueError")
            else:
                eng.safety("int(s,16) hex", ok, n)
            return P(INT, uf("hex2int", S, I)(a.term))
        raise Unsupported("int(x, %r)" % (base.v,))
    if isinstance(a, Conc):
        try:
            return Conc(int(a.v))
        except ValueError:
            raise RaiseSig("ValueError")
    if isinstance(a, P) and a.ty == INT:
        return a
    if isinstance(a, P) and a.ty == BOOL:
        return P(INT, z3.If(a.term, zint(1), zint(0)))
    if isinstance(a, P) and a.ty == BITS:
        # int() of a one-character bit string
        ok = z3.Length(a.term) == 1
        if not eng.spec_mode:
            eng.emit("%s#enc.int-of-bit" % eng.cur_func, ok, meta={"kind": "encoding"})
        return P(INT, z3.If(a.term[0], zint(1), zint(0)))
    if isinstance(a, P) and a.ty == STR:
        # Python accepts surrounding whitespace, sign, underscores; we only claim the plain-digit domain
        ok = is_numeral(a.term)
        if eng.may_catch("ValueError") and not eng.spec_mode:
            eng.used_assumptions.add("int(str): modelled as ValueError unless [0-9]+ (sign/space/underscore forms unmodelled)")
            if not eng.decide(ok):
                raise RaiseSig("ValueError")
        else:
            eng.safety("int(str) numeral", ok, n)
        if not eng.spec_mode:
            eng.st.pc.append(z3.StrToInt(a.term) >= 0)     # value of a digit string
        return P(INT, z3.StrToInt(a.term))
    if isinstance(a, P) and a.ty.kind == "opq":
        return eng.reg.ext_call(eng, "int.of." + a.ty.args[0], [a], {}, n)
    if isinstance(a, Special):
        return eng.reg.ext_call(eng, "int.of." + a.tag, [a], {}, n)
    raise Unsupported("int() of %r" % (a,))


def hexre():
    return z3.Union(z3.Range("0", "9"), z3.Range("a", "f"), z3.Range("A", "F"))


def bi_str(eng, args, kw, n):
    if not args:
        return Conc("")
    a = args[0]
    if isinstance(a, Special):
        return eng.reg.ext_call(eng, "str.of." + a.tag, [a], {}, n)
    return to_str(eng, a)


def bi_bool(eng, args, kw, n):
    return P(BOOL, eng.truth(args[0]))


def bi_ord(eng, args, kw, n):
    a = args[0]
    if isinstance(a, Conc):
        return Conc(ord(a.v))
    s = eng.term(a, STR)
    eng.safety("ord[len==1]", z3.Length(s) == 1, n)
    return P(INT, z3.StrToCode(s))


def bi_chr(eng, args, kw, n):
    a = args[0]
    if isinstance(a, Conc):
        return Conc(chr(a.v))
    i = eng.term(a, INT)
    eng.safety("chr[range]", z3.And(i >= 0, i < 0x110000), n)
    return P(STR, z3.StrFromCode(i))


def bi_range(eng, args, kw, n):
    if len(args) == 1:
        return Special("range", lo=Conc(0), hi=args[0])
    if len(args) == 2:
        return Special("range", lo=args[0], hi=args[1])
    raise Unsupported("range with step")


def bi_enumerate(eng, args, kw, n):
    return Special("enumerate", it=args[0])


def bi_reversed(eng, args, kw, n):
    c = cell(eng, args[0])
    if isinstance(c, Conc):
        return Conc(list(reversed(c.v)))
    if isinstance(c, ListV):
        return make_list(eng, list(reversed(c.items)))
    raise Unsupported("reversed of %r" % (c,))


def bi_zip(eng, args, kw, n):
    seqs = [iter_concrete(eng, a) for a in args]
    m = min(len(s) for s in seqs)
    return make_list(eng, [TupV([s[i] for s in seqs]) for i in range(m)])


def bi_list(eng, args, kw, n):
    if not args:
        return make_list(eng, [])
    a0 = args[0]
    if isinstance(a0, OptV):
        if not eng.spec_mode:
            eng.safety("list-of-None", a0.some, n)
        a0 = a0.val
    c = cell(eng, a0)
    if isinstance(c, P) and c.ty.kind == "seq":
        return alloc(eng, Ty("list", c.ty.args[0]), P(c.ty, c.term), "cell.copy")   # a fresh list with the same items
    if isinstance(c, P):
        return c
    return make_list(eng, iter_concrete(eng, args[0]))


def bi_tuple(eng, args, kw, n):
    return TupV(iter_concrete(eng, args[0]))


def bi_sum(eng, args, kw, n):
    items = iter_concrete(eng, args[0])
    acc = zint(0)
    for it in items:
        acc = acc + eng.term(it, INT)
    return P(INT, acc)


def seq_of(eng, v):
    """Unwrap Optional / heap cell to a symbolic sequence value P(SeqT) (or None)."""
    if isinstance(v, OptV):
        v = v.val
    c = cell(eng, v)
    if isinstance(c, ListV):
        items = c.items
        if not items:
            return None
        if all(isinstance(i, TupV) and len(i.items) == 2 for i in items):
            # list of pairs of strings: elements of the opaque Pair sort
            h = eng.reg.ext.get("mkpair")
            if h is not None:
                items = [h(eng, list(i.items), {}, None) for i in items]
        ety = None
        for it in items:
            if isinstance(it, P):
                ety = it.ty
        if ety is None:
            ety = eng.conc_type(items[0])
        return P(SeqT(ety), eng.term(Conc([]), SeqT(ety)) if not items else
                 z3.Concat(*[z3.Unit(eng.term(i, ety)) for i in items]) if len(items) > 1
                 else z3.Unit(eng.term(items[0], ety)))
    if isinstance(c, P) and c.ty.kind == "seq":
        return c
    return None


def bi_any(eng, args, kw, n):
    a = cell(eng, args[0])
    if isinstance(a, Special) and a.tag == "mapped":
        # any(f(x) for x in L) over a symbolic sequence: fresh Bool r with
        #   r => f(L[w]) for a witness index w;   forall i. f(L[i]) => r
        r = z3.Bool(eng.fresh_name("any"))
        w = z3.Int(eng.fresh_name("any.w"))
        ln = z3.Length(a.src.term)
        eng.st.pc.append(z3.Implies(r, z3.And(w >= 0, w < ln, z3.substitute(a.body, (a.ivar, w)))))
        j = z3.Int(eng.fresh_name("any.j"))
        eng.st.schemas.append(Schema("any.def", [j], z3.Implies(
            z3.And(j >= 0, j < ln, z3.substitute(a.body, (a.ivar, j))), r)))
        return P(BOOL, r)
    items = iter_concrete(eng, args[0])
    return P(BOOL, z3.Or([eng.truth(i) for i in items] or [z3.BoolVal(False)]))


def bi_all(eng, args, kw, n):
    items = iter_concrete(eng, args[0])
    return P(BOOL, z3.And([eng.truth(i) for i in items] or [z3.BoolVal(True)]))


def bi_min(eng, args, kw, n):
    a, b = args
    x, y = eng.term(a, INT), eng.term(b, INT)
    return P(INT, z3.If(x <= y, x, y))


def bi_max(eng, args, kw, n):
    a, b = args
    x, y = eng.term(a, INT), eng.term(b, INT)
    return P(INT, z3.If(x >= y, x, y))


def bi_isinstance(eng, args, kw, n):
    raise Unsupported("isinstance")


def bi_sorted(eng, args, kw, n):
    return eng.reg.ext_call(eng, "sorted", args, kw, n)


def bi_set(eng, args, kw, n):
    if not args:
        return eng.reg.make_set(eng, [])
    return eng.reg.make_set(eng, args[0])


def bi_open(eng, args, kw, n):
    return eng.reg.ext_call(eng, "open", args, kw, n)


def iter_concrete(eng, v):
    """Items of an iterable with concrete spine."""
    c = cell(eng, v)
    if isinstance(c, Conc):
        if isinstance(c.v, dict):
            return [Conc(k) for k in c.v]
        return [Conc(x) for x in c.v]
    if isinstance(c, ListV):
        return list(c.items)
    if isinstance(c, TupV):
        return list(c.items)
    if isinstance(c, Special) and c.tag == "range" and isinstance(c.lo, Conc) and isinstance(c.hi, Conc):
        return [Conc(i) for i in range(c.lo.v, c.hi.v)]
    if isinstance(c, Special) and c.tag == "enumerate":
        return [TupV([Conc(i), x]) for i, x in enumerate(iter_concrete(eng, c.it))]
    if isinstance(c, Special) and c.tag == "genexp":
        return eng.expand_genexp(c)
    if isinstance(c, P) and c.ty in (STR, BITS):
        # symbolic string of known length?  not concrete
        raise Unsupported("iteration over symbolic sequence needs a loop invariant")
    raise Unsupported("iteration over %r" % (c,))


def genexp_as_list(eng, g):
    """materialise `(f(x) for x in L)` over a symbolic sequence as a mapped list (same machinery as a list comprehension)"""
    import ast as _ast
    n = _ast.ListComp(elt=g.node.elt, generators=g.node.generators)
    saved = eng.st.vars
    merged = dict(g.closure)
    merged.update(saved)
    eng.st.vars = merged
    try:
        it = eng.ev(g.node.generators[0].iter)
        return eng.reg.symbolic_comprehension(eng, n, "list", it)
    finally:
        eng.st.vars = saved


# ---- string methods
def str_method(eng, recv, name, args, kw, n):
    if isinstance(recv, Conc) and all(isinstance(a, Conc) for a in args) and not kw \
            and name not in ("format", "encode", "join"):
        return Conc(getattr(recv.v, name)(*[a.v for a in args]))
    if name == "format":
        return str_format(eng, recv, args, kw, n)
    if name == "encode" or name == "decode":
        if args:
            raise Unsupported("encode with explicit codec")
        eng.used_assumptions.add("E-encode: str.encode()/bytes.decode() are mutually inverse injections (no lone surrogates)")
        return recv
    if name == "hexdigest":
        raise Unsupported("hexdigest on non-hash")
    if name == "join":
        return eng.reg.str_join(eng, recv, args[0], n)
    if isinstance(recv, P) and recv.ty.kind == "opq":
        return eng.reg.opaque_method(eng, recv, name, args, kw, n)
    s = eng.term(recv, STR)
    if name == "startswith":
        return P(BOOL, z3.PrefixOf(eng.term(args[0], STR), s))
    if name == "endswith":
        return P(BOOL, z3.SuffixOf(eng.term(args[0], STR), s))
    if name in ("lstrip", "rstrip", "strip", "split", "lower", "upper", "replace", "isdigit", "isalnum", "isalpha"):
        return eng.reg.str_ws_method(eng, recv, name, args, kw, n)
    raise Unsupported("str method %s" % name)


def str_format(eng, recv, args, kw, n):
    if not isinstance(recv, Conc):
        if isinstance(recv, P) and recv.ty.kind == "opq":
            return eng.reg.opaque_method(eng, recv, "format", args, kw, n)
        raise Unsupported("format on symbolic template")
    tmpl = recv.v
    # the double-format idiom "{{:0{length}b}}".format(length=L) -> binary format of width L
    if tmpl == "{{:0{length}b}}" and set(kw) == {"length"} and not args:
        eng.used_assumptions.add("E-format")
        L = eng.term(kw["length"], INT)
        return P(Opq("Fmt"), uf("binfmt", I, sort_of(Opq("Fmt")))(L))
    parts = list(_string.Formatter().parse(tmpl))
    acc = Conc("")
    auto = 0
    for lit, field, spec, conv in parts:
        if lit:
            acc = binop_add(eng, acc, Conc(lit), n)
        if field is None:
            continue
        if spec or conv:
            raise Unsupported("format spec %r" % (spec,))
        if field == "":
            v = args[auto]
            auto += 1
        elif field.isdigit():
            v = args[int(field)]
        else:
            v = kw[field]
        sv = to_str(eng, v)
        if isinstance(sv, P) and sv.ty == BITS:
            raise Unsupported("formatting a bit-string into text")
        acc = binop_add(eng, acc, sv if not isinstance(sv, StrOfInt) else P(STR, z3.IntToStr(sv.term)), n)
    return acc


# ---- methods on heap cells (dict, bidict, list, set)
def cell_method(eng, recv, name, args, kw, n):
    if isinstance(recv, InvView):
        bm = eng.heap()[recv.loc.rid]
        m = bm.inv
        if name == "get":
            k = eng.term(args[0], m.kt)
            return OptV(z3.Select(m.dom, k), P(m.vt, z3.Select(m.val, k)))
        raise Unsupported("inv.%s" % name)
    c = eng.heap()[recv.rid]
    if isinstance(c, (MapV, BimapV)):
        m = c.fwd if isinstance(c, BimapV) else c
        if name == "get":
            if len(args) != 1:
                raise Unsupported("get with default")
            if isinstance(args[0], OptV):
                k = eng.term(args[0].val, m.kt)
                return OptV(z3.And(args[0].some, z3.Select(m.dom, k)), P(m.vt, z3.Select(m.val, k)))
            k = eng.term(args[0], m.kt)
            return OptV(z3.Select(m.dom, k), P(m.vt, z3.Select(m.val, k)))
        if name == "items":
            return Special("mapitems", m=m, ref=recv)
        if name == "keys":
            return Special("mapkeys", m=m, ref=recv)
        raise Unsupported("dict method %s" % name)
    if isinstance(c, ListV):
        if name == "append":
            eng.st.heap[recv.rid] = ListV(c.items + [args[0]])
            return NoneV()
        if name == "insert":
            if not isinstance(args[0], Conc):
                raise Unsupported("insert at symbolic index")
            items = list(c.items)
            items.insert(args[0].v, args[1])
            eng.st.heap[recv.rid] = ListV(items)
            return NoneV()
        if name == "extend":
            list_extend(eng, recv, args[0])
            return NoneV()
        raise Unsupported("list method %s" % name)
    if isinstance(c, P) and c.ty.kind == "seq" and name == "extend":
        list_extend(eng, recv, args[0])
        return NoneV()
    return eng.reg.cell_method(eng, recv, c, name, args, kw, n)


def list_extend(eng, ref, other):
    c = eng.st.heap[ref.rid]
    if isinstance(c, ListV):
        try:
            eng.st.heap[ref.rid] = ListV(c.items + iter_concrete(eng, other))
            return
        except Unsupported:
            pass
    return eng.reg.list_extend(eng, ref, c, other)


def conc_method(eng, recv, name, args, kw, n):
    v = recv.v
    if all(isinstance(a, Conc) for a in args) and not kw and isinstance(v, (str, tuple, frozenset, dict, list)):
        if name in ("append", "extend", "insert", "update", "add", "pop", "remove", "clear", "sort"):
            return eng.reg.global_mutation(eng, recv, name, args, n)
        return Conc(getattr(v, name)(*[a.v for a in args]))
    if name in ("append", "extend", "insert", "update", "add", "pop", "remove", "clear", "sort"):
        return eng.reg.global_mutation(eng, recv, name, args, n)
    if isinstance(v, dict) and name == "get" and len(args) == 1:
        keys = list(v.keys())
        present = contains(eng, recv, args[0], n)
        saved = eng.spec_mode
        eng.spec_mode += 1
        try:
            val = const_dict_lookup(eng, v, args[0], n)
        finally:
            eng.spec_mode = saved
        return OptV(present, val)
    raise Unsupported("method %s on constant %r" % (name, type(v).__name__))


# ---------------------------------------------------------------- comprehensions and loops
def comprehension(eng, n, kind):
    if len(n.generators) != 1:
        raise Unsupported("nested comprehension")
    g = n.generators[0]
    it = eng.ev(g.iter)
    try:
        items = iter_concrete(eng, it)
    except Unsupported:
        return eng.reg.symbolic_comprehension(eng, n, kind, it)
    saved = dict(eng.st.vars)
    out = []
    try:
        for x in items:
            eng.assign(g.target, x)
            conds = [eng.truth(eng.ev(c)) for c in g.ifs]
            if conds:
                c = z3.simplify(z3.And(conds))
                if z3.is_false(c):
                    continue
                if not z3.is_true(c):
                    raise Unsupported("comprehension filter with symbolic condition over concrete spine")
            if kind == "dict":
                out.append((eng.ev(n.key), eng.ev(n.value)))
            else:
                out.append(eng.ev(n.elt))
    finally:
        eng.st.vars = saved
    if kind == "list":
        return make_list(eng, out)
    if kind == "set":
        return eng.reg.make_set(eng, make_list(eng, out))
    if kind == "dict":
        return eng.reg.make_dict(eng, out)
    raise Unsupported(kind)


def exec_for(eng, s):
    if s.orelse:
        raise Unsupported("for/else")
    it = eng.ev(s.iter)
    inv = eng.loop_contract(s)
    if inv is None:
        try:
            items = iter_concrete(eng, it)
        except Unsupported as e:
            items = bounded_string_items(eng, it, s)
            if items is None:
                raise Unsupported("loop without invariant over symbolic iterable: %s" % e)
        eng.unrolled.add("loop over constant %s unrolled (%d iterations)" % (ast.unparse(s.iter)[:40], len(items)))
        for x in items:
            eng.assign(s.target, x)
            try:
                eng.exec_block(s.body)
            except BreakSig:
                break
            except ContinueSig:
                continue
        return
    eng.exec_for_invariant(s, it, inv)


MAX_STR_UNROLL = 6


def bounded_string_items(eng, it, s):
    """`for c in s` / `for i, c in enumerate(s)` over a symbolic string of small length: complete case split on
    the length (0..MAX_STR_UNROLL) with an obligation that the length cannot exceed the bound."""
    enum = False
    c = cell(eng, it)
    if isinstance(c, Special) and c.tag == "enumerate":
        enum = True
        c = cell(eng, c.it)
    if not (isinstance(c, P) and c.ty == STR):
        return None
    ln = z3.Length(c.term)
    eng.emit("%s#unroll.bound[%s]" % (eng.cur_func, ast.unparse(s.iter)[:40]), ln <= MAX_STR_UNROLL,
             meta={"kind": "encoding"})
    n = None
    for k in range(MAX_STR_UNROLL + 1):
        if eng.decide(ln == k):
            n = k
            break
    if n is None:
        raise PathCut()
    eng.unrolled.add("loop over a string of length <= %d at %s: case split on the length" % (
        MAX_STR_UNROLL, ast.unparse(s.iter)[:40]))
    items = [P(STR, z3.SubString(c.term, zint(j), zint(1))) for j in range(n)]
    if enum:
        items = [TupV([Conc(j), x]) for j, x in enumerate(items)]
    return items


def exec_while(eng, s):
    if s.orelse:
        raise Unsupported("while/else")
    inv = eng.loop_contract(s)
    if inv is None:
        raise Unsupported("while loop without invariant")
    eng.exec_while_invariant(s, inv)


def exec_with(eng, s):
    for item in s.items:
        v = eng.ev(item.context_expr)
        if item.optional_vars is not None:
            eng.assign(item.optional_vars, v)
    eng.exec_block(s.body)
