"""developer driver: python3-vt -m pyvc.dev <funckey|lemma:NAME> ..."""
import sys, time, traceback
from pyvc.repo import Repo
from pyvc.verify import Verifier
from pyvc import smt
from contracts import R

def main(argv):
    repo = Repo()
    v = Verifier(repo, R)
    t0 = time.time()
    for a in argv:
        if a.startswith("lemma:"):
            v.prove_lemma(a[6:])
            v.usable_lemmas.append(a[6:])
        elif a.startswith("use:"):
            v.usable_lemmas.append(a[4:])
        else:
            n = v.verify_function(a)
            print("paths", a, n)
    print("vcs", len(v.vcs), "gen %.2fs" % (time.time() - t0))
    t0 = time.time()
    res = smt.solve_vcs(v.vcs)
    tasks = res
    bad = 0
    for t, r in zip(tasks, res):
        flag = "" if r["verdict"] == "unsat" else "   <<<<<<"
        if r["verdict"] != "unsat":
            bad += 1
        print("%-8s %-6s %6.2fs n=%-4d %s%s" % (r["verdict"], r["backend"], r["time"], r.get("ninst", 0), r["name"], flag))
        if r["verdict"] == "sat" and "-m" in sys.argv:
            print("   model:", {k: v for k, v in (r["model"] or {}).items() if not k.startswith("hv")})
    print("total %.2fs, not proved: %d" % (time.time() - t0, bad))
    if "-v" in sys.argv:
        from pyvc.engine import VC
        import z3
        vac = []
        for vc in v.vcs:
            if vc.meta.get("trivial"):
                continue
            c = VC(vc.name + "?vacuity", vc.hyps, vc.schemas, z3.BoolVal(False), vc.extra_terms, dict(vc.meta, z3_t1=5, cvc5_t=5, z3_t2=1))
            # keep the goal's terms for instantiation
            c.extra_terms = list(c.extra_terms)
            c.meta["goal_terms"] = vc.goal
            vac.append(c)
        res2 = smt.solve_vcs(vac)
        nv = sum(1 for r in res2 if r["verdict"] == "unsat")
        print("vacuity probes: %d, vacuous (hyps inconsistent): %d" % (len(vac), nv))
        for r in res2:
            if r["verdict"] == "unsat":
                print("   VACUOUS", r["name"])
    print("assumptions:", sorted(v.used_assumptions))

if __name__ == "__main__":
    try:
        main([a for a in sys.argv[1:] if a not in ("-m", "-v")])
    except Exception:
        traceback.print_exc()
        sys.exit(3)
