"""bin/check front end: decide one property for /repo's current working tree.

exit 0  every obligation of the property discharged (KNOWN-FINDING lines may be printed)
exit 1  VIOLATION property=<id> replay=<path>[ no-failing-input-found]
exit 2  undecided (contract does not fit the code / construct outside the subset) and the bounded stand-in found nothing
exit 3  checker problem (crash, solver disagreement, solver instability on unchanged code, wrong assumed contract)
"""
import argparse
import hashlib
import json
import os
import subprocess
import sys
import time
import traceback

ROOT = os.path.dirname(os.path.dirname(os.path.abspath(__file__)))
sys.path.insert(0, ROOT)

import z3  # noqa: E402

from pyvc.repo import Repo, REPO, VENV_PY, EXTRACTION_DROPS  # noqa: E402
from pyvc.verify import Verifier  # noqa: E402
from pyvc.engine import Unsupported, ContractMismatch, VC  # noqa: E402
from pyvc import smt  # noqa: E402

BASELINE = os.path.join(ROOT, "baseline", "obligations.json")
KNOWN = os.path.join(ROOT, "known_findings.json")

ENCODING_ASSUMPTIONS = [
    "Python int = SMT Int (exact); // and % only with positive divisors; bitwise ops only on proven {0,1} values or in bit-vector mode",
    "str = SMT String (sequence of code points, no lone surrogates); bit strings = Seq(Bool) refinement type",
    "lists/dicts have value semantics unless listed in `modifies`; dict = (dom,val,size) arrays; objects = records of fields",
    "exceptions inside one statement are raised from the state at the start of that statement",
    "recursion depth, memory, signals, threads, monkey-patching are not modelled (except explicit depth obligations)",
    "quantified hypotheses are instantiated at key/index/value terms and pattern matches (2 rounds): incompleteness can only lose proofs, never accept a false VC",
]


def sha(s):
    return hashlib.sha256(s.encode()).hexdigest()


def contracts_hash():
    h = hashlib.sha256()
    for d in ("contracts", "pyvc"):
        for fn in sorted(os.listdir(os.path.join(ROOT, d))):
            if fn.endswith(".py"):
                with open(os.path.join(ROOT, d, fn), "rb") as f:
                    h.update(f.read())
    with open(os.path.join(ROOT, "props.py"), "rb") as f:
        h.update(f.read())
    return h.hexdigest()


def load_json(path, default):
    try:
        with open(path) as f:
            return json.load(f)
    except FileNotFoundError:
        return default


def run_standin(module, prop_id, tier, seed, extra=None):
    """Bounded stand-in / witness search on the REAL code under the repo's interpreter."""
    script = os.path.join(ROOT, "pyvc", "rt", module + ".py")
    env = dict(os.environ)
    env["PYTHONPATH"] = REPO
    env["PYTHONDONTWRITEBYTECODE"] = "1"
    env.setdefault("PYTHONHASHSEED", "0")
    args = {"property": prop_id, "tier": tier, "seed": seed}
    if extra:
        args.update(extra)
    t0 = time.time()
    p = subprocess.run([VENV_PY, script, json.dumps(args)], capture_output=True, text=True, env=env, cwd="/",
                       timeout=3600)
    if p.returncode != 0:
        return {"error": "stand-in crashed: " + p.stderr[-1500:], "evaluations": 0, "failures": [], "module": module,
                "wall_s": time.time() - t0}
    try:
        r = json.loads(p.stdout.strip().splitlines()[-1])
    except Exception as e:  # pragma: no cover
        return {"error": "stand-in output unreadable: %s / %s" % (e, p.stdout[-500:]), "evaluations": 0,
                "failures": [], "module": module, "wall_s": time.time() - t0}
    r["module"] = module
    r["wall_s"] = round(time.time() - t0, 2)
    return r


def write_replay(pid, payload):
    d = os.path.join(ROOT, "replays")
    os.makedirs(d, exist_ok=True)
    h = sha(json.dumps(payload, sort_keys=True, default=str))[:12]
    path = os.path.join(d, "%s-%s.json" % (pid, h))
    with open(path, "w") as f:
        json.dump(payload, f, indent=1, default=str)
    return path


def aggregate(vcs, results):
    """name -> dict(status, subs, time, backend set, models)"""
    obs = {}
    for vc, r in zip(vcs, results):
        o = obs.setdefault(vc.name, {"status": "proved", "subs": 0, "time": 0.0, "backends": {}, "models": [],
                                     "kind": vc.meta.get("kind", ""), "reasons": [], "texts": []})
        o["subs"] += 1
        o["time"] += r.get("time", 0.0)
        o["backends"][r["backend"]] = o["backends"].get(r["backend"], 0) + 1
        v = r["verdict"]
        if v == "unsat":
            continue
        if v == "disagree":
            o["status"] = "disagree"
        elif v == "sat" and o["status"] not in ("disagree",):
            o["status"] = "refuted"
            o["models"].append(r.get("model"))
        elif o["status"] == "proved":
            o["status"] = "unknown"
            o["reasons"].append(r.get("reason", ""))
        if r.get("text"):
            o["texts"].append(r["text"][:20000])
    return obs


def decide(pid, tier, seed, args):
    from contracts import R
    import props as props_mod
    prop = props_mod.PROPS[pid]
    t0 = time.time()
    repo = Repo()
    V = Verifier(repo, R)
    undecided = []
    fn_info = []
    # ---- lemmas
    for name in prop.get("lemmas", []):
        try:
            V.prove_lemma(name)
        except Unsupported as e:
            undecided.append(("lemma." + name, "unsupported: %s" % e))
        V.usable_lemmas.append(name)
    # ---- functions under contract
    paths = 0
    for key in prop.get("functions", []):
        fkey = key.split("@")[0]
        fi = repo.funcs.get(fkey)
        try:
            n = V.verify_function(key)
            paths += n
            fn_info.append({"function": key, "sha256": fi.sha if fi else None, "paths": n})
        except ContractMismatch as e:
            undecided.append((key, "contract does not fit the code: %s" % e))
            fn_info.append({"function": key, "sha256": fi.sha if fi else None, "undecided": str(e)})
        except Unsupported as e:
            undecided.append((key, "outside the supported subset: %s" % e))
            fn_info.append({"function": key, "sha256": fi.sha if fi else None, "undecided": str(e)})
        except (RecursionError, MemoryError):
            raise
        except Exception as e:
            # the executor itself failed.  On code identical to the baseline that is a checker bug (exit 3); on
            # changed code it means the change left what the executor models: undecided, the stand-in decides
            if fi is None or load_json(BASELINE, {}).get("_files") == repo.file_sha:
                raise
            undecided.append((key, "outside the supported subset: executor failed with %s: %s" % (type(e).__name__, e)))
            fn_info.append({"function": key, "sha256": fi.sha, "undecided": "%s: %s" % (type(e).__name__, e)})
    # ---- extra obligation generators (regex etc.)
    for gen in prop.get("generators", []):
        try:
            gen(V, repo)
        except Unsupported as e:
            undecided.append((getattr(gen, "__name__", "generator"), "unsupported: %s" % e))
        except (RecursionError, MemoryError):
            raise
        except Exception as e:
            # as for functions: a generator that fails on code identical to the baseline is a checker bug, on changed
            # code (e.g. a pattern rewritten with constructs the regular-language translation does not cover) the
            # obligations it would have produced are undecided
            if load_json(BASELINE, {}).get("_files") == repo.file_sha:
                raise
            undecided.append((getattr(gen, "__name__", "generator"),
                              "outside the supported subset: %s: %s" % (type(e).__name__, e)))
    vcs = list(V.vcs)
    only = prop.get("only")
    if only:
        vcs = [vc for vc in vcs if vc.name.startswith("lemma.") or any(s in vc.name for s in only)]
    exclude = prop.get("exclude")
    if exclude:
        vcs = [vc for vc in vcs if not any(s in vc.name for s in exclude)]
    gen_s = time.time() - t0
    # keep a few SMT texts as samples
    for vc in vcs[:400:97]:
        vc.meta["keep_text"] = True
    t1 = time.time()
    results = smt.solve_vcs(vcs)
    solve_wall = time.time() - t1
    obs = aggregate(vcs, results)
    # ---- retry: obligations left `unknown` are solved again, few at a time and with tripled budgets, so that a
    #      loaded machine cannot turn a proved obligation into an undecided one
    retry = [i for i, (vc, r) in enumerate(zip(vcs, results)) if r["verdict"] == "unknown"]
    if retry and len(retry) <= 40:
        for i in retry:
            if vcs[i].meta.get("false_goal"):
                vcs[i].meta.update(q_fast=20, q_slow=60, z3_t=40, cvc5_t=40, z3_quick=10, z3_sliced=15)
            else:
                vcs[i].meta.update(q_fast=20, q_slow=450, z3_t=450, cvc5_t=450, z3_quick=10, z3_sliced=15)
        again = smt.solve_vcs([vcs[i] for i in retry], jobs=4)
        for i, r in zip(retry, again):
            if r["verdict"] in ("unsat", "sat"):
                r["retried"] = True
                results[i] = r
        obs = aggregate(vcs, results)
    # ---- vacuity probes: the entry hypotheses of each function / lemma must be satisfiable
    probes = []
    seen = set()
    for vc in vcs:
        if vc.meta.get("trivial"):
            continue
        grp = vc.name.split("#")[0]
        if grp in seen:
            continue
        seen.add(grp)
        nb = vc.meta.get("entry_n")
        if nb is None:
            seen.discard(grp)
            continue
        c = VC(grp + "?vacuity", vc.hyps[:nb], vc.schemas, z3.BoolVal(False), vc.extra_terms,
               {"z3_t1": 3, "cvc5_t": 3, "z3_t2": 3, "goal_terms": vc.goal})
        probes.append(c)
    pres = smt.solve_vcs(probes) if probes else []
    vacuous = [c.name for c, r in zip(probes, pres) if r["verdict"] == "unsat"]
    return dict(prop=prop, V=V, repo=repo, vcs=vcs, results=results, obs=obs, undecided=undecided,
                fn_info=fn_info, paths=paths, gen_s=gen_s, solve_wall=solve_wall, probes=len(probes),
                vacuous=vacuous, contracts_hash=contracts_hash(), file_sha=dict(repo.file_sha))


def main(argv=None):
    ap = argparse.ArgumentParser()
    ap.add_argument("property")
    ap.add_argument("--tier", default=os.environ.get("VERIF_TIER", "quick"), choices=["quick", "thorough"])
    ap.add_argument("--replay")
    ap.add_argument("--update-baseline", action="store_true")
    ap.add_argument("--verbose", "-v", action="store_true")
    args = ap.parse_args(argv)
    pid = args.property
    seed = int(os.environ.get("VERIF_SEED", "0") or 0)
    if args.replay:
        return do_replay(pid, args.replay)
    t0 = time.time()
    try:
        return run(pid, args.tier, seed, args, t0)
    except Exception:
        traceback.print_exc()
        print("CHECKER-ERROR property=%s (exit 3: the checker failed, nothing is claimed about the code)" % pid)
        return 3


def do_replay(pid, path):
    with open(path) as f:
        payload = json.load(f)
    w = payload.get("witness")
    print("obligation:", payload.get("obligation"))
    if not w:
        print("no concrete input attached (no-failing-input-found); solver output:")
        print(json.dumps(payload.get("solver"), indent=1)[:4000])
        return 1
    r = run_standin(w["module"], pid, "quick", 0, {"replay": w})
    print(json.dumps(r, indent=1)[:4000])
    if r.get("failures"):
        print("VIOLATION property=%s replay=%s" % (pid, path))
        return 1
    print("replay did not reproduce a violation on the current tree")
    return 0


def run(pid, tier, seed, args, t0):
    d = decide(pid, tier, seed, args)
    prop, obs, V = d["prop"], d["obs"], d["V"]
    baseline = load_json(BASELINE, {})
    base_p = baseline.get(pid, {})
    known = load_json(KNOWN, {"findings": [], "fixed": []})
    kf = [k for k in known.get("findings", []) if k.get("property") == pid]

    # ---------------- bounded stand-ins (always run; labelled bounded, never counted as proved)
    standins = []
    for module, sid in prop.get("standins", []):
        standins.append(run_standin(module, sid, tier, seed))
    if d["undecided"] and tier == "quick" and not any(s.get("failures") for s in standins):
        # part of the deductive check is undecided (changed code left the subset): the bounded stand-in is all that
        # can still decide, so give it its thorough bound
        standins = [run_standin(module, sid, "thorough", seed) for module, sid in prop.get("standins", [])]
    # conformance of the ASSUMED library contracts with the installed libraries (a failure = checker error)
    conformance = run_standin("rt_conformance", pid, tier, seed)
    standin_fail = [(s["module"], f) for s in standins for f in s.get("failures", [])]
    standin_err = [s for s in standins if s.get("error")]
    # A conformance failure tagged T-… concerns a TRUSTED contract on a function of the repository (not a library):
    # the real code contradicts a contract this property's proof relies on, with a concrete input - a violation to
    # report, not a checker error.  It counts for the properties whose functions use that contract.
    T_USERS = {"T-juniper": ("juniper_secrets:", ":_anonymize_value"), "T-default-regexes": ("FileAnonymizer.__init__", ":replace_matching_item")}
    t_fail = [f for f in conformance.get("failures", []) if str(f.get("tag", "")).startswith("T-")]
    conformance["failures"] = [f for f in conformance.get("failures", []) if f not in t_fail]
    for f in t_fail:
        users = T_USERS.get(f["tag"], ())
        if any(u in k for u in users for k in prop.get("functions", [])):
            standin_fail.append(("rt_conformance", {"tag": "trusted." + f["tag"], "input": f.get("input"),
                                                    "detail": f.get("detail"), "obligation_hint": "trusted contract"}))

    failed = {n: o for n, o in obs.items() if o["status"] in ("refuted", "unknown")}
    disagree = [n for n, o in obs.items() if o["status"] == "disagree"]
    violations = []
    known_lines = []
    unstable = []

    def kf_match(name=None, failure=None):
        for k in kf:
            if name is not None and k.get("obligation") and k["obligation"] in name:
                return k
            if failure is not None and k.get("standin_tag") and k["standin_tag"] == failure.get("tag"):
                return k
        return None

    # stand-in failures are concrete violations on the real code
    reported_kf = set()
    for module, f in standin_fail:
        k = kf_match(failure=f)
        if k is not None:
            if k["id"] not in reported_kf:
                reported_kf.add(k["id"])
                known_lines.append("KNOWN-FINDING: property=%s %s" % (pid, k["what"]))
            continue
        path = write_replay(pid, {"property": pid, "obligation": "bounded stand-in %s (contract checked at run time "
                                  "on the real code)" % module, "witness": dict(f, module=module),
                                  "replay_cmd": "bin/check %s --replay <this file>" % pid})
        violations.append(("standin:" + f.get("tag", module), path, True))

    fn_sha = {f["function"]: f.get("sha256") for f in d["fn_info"]}
    base_sha = baseline.get("_functions", {})
    for name, o in sorted(failed.items()):
        k = kf_match(name=name)
        in_base = base_p.get(name) == "proved"
        # find concrete witness via stand-ins (witness search on the same tree)
        wit = None
        for module, f in standin_fail:
            if f.get("obligation_hint") and f["obligation_hint"] in name:
                wit = dict(f, module=module)
        if wit is None and standin_fail:
            wit = dict(standin_fail[0][1], module=standin_fail[0][0])
        if k is not None and o["status"] == "unknown":
            # an obligation that belongs to a recorded finding and that the solver left open this time: the finding
            # is decided by replaying its recorded witness on the real code, not by the solver
            rr = run_standin(k["witness"]["module"], pid, "quick", seed, {"replay": k["witness"]}) \
                if k.get("witness") else {"failures": []}
            if rr.get("failures"):
                if k["id"] not in reported_kf:
                    reported_kf.add(k["id"])
                    known_lines.append("KNOWN-FINDING: property=%s %s" % (pid, k["what"]))
                o["status"] = "refuted"
                continue
        if o["status"] == "unknown":
            fn = name.split("#")[0]
            # "same code" = no analysed source file differs from the baseline (a changed callee that is inlined
            # changes the caller's obligations too) and the contracts are the baseline's
            same_code = baseline.get("_files") == d["file_sha"] and \
                baseline.get("_contracts_hash") == d["contracts_hash"]
            if not in_base:
                # never proved on the unchanged tree: undecided, not a violation
                d["undecided"].append((name, "not proved (solver unknown) and not in the proved baseline"))
                continue
            if same_code:
                unstable.append(name)
                continue
        if k is not None:
            # listed finding: the witness must still reproduce on the real code
            rr = run_standin(k["witness"]["module"], pid, "quick", seed, {"replay": k["witness"]}) \
                if k.get("witness") else {"failures": [1]}
            if rr.get("failures"):
                if k["id"] not in reported_kf:
                    reported_kf.add(k["id"])
                    known_lines.append("KNOWN-FINDING: property=%s %s" % (pid, k["what"]))
                continue
        payload = {"property": pid, "obligation": name, "status": o["status"],
                   "solver": {"models": o["models"][:2], "reasons": o["reasons"][:2], "backends": o["backends"],
                              "time_s": round(o["time"], 2)},
                   "smt2": o["texts"][:1], "witness": wit,
                   "was_proved_on_baseline": in_base,
                   "replay_cmd": "bin/check %s --replay <this file>" % pid}
        path = write_replay(pid, payload)
        violations.append((name, path, wit is not None))

    # ---------------- evidence
    n_obl = len(obs)
    n_dis = sum(1 for o in obs.values() if o["status"] == "proved")
    by_backend = {}
    for r in d["results"]:
        by_backend[r["backend"]] = by_backend.get(r["backend"], 0) + 1
    solver_time = sum(r.get("time", 0.0) for r in d["results"])
    samples = []
    for vc, r in zip(d["vcs"], d["results"]):
        if len(samples) >= 4:
            break
        if r.get("text") and r["verdict"] == "unsat":
            samples.append({"obligation": vc.name, "verdict": r["verdict"], "backend": r["backend"],
                            "time_s": round(r["time"], 3), "instances": r.get("ninst"),
                            "smt2_head": r["text"][:1500]})
    if not samples:
        for vc, r in list(zip(d["vcs"], d["results"]))[:3]:
            samples.append({"obligation": vc.name, "verdict": r["verdict"], "backend": r["backend"]})
    trusted = sorted(V.used_assumptions)
    level = prop["level"]
    cov = {
        "obligations": n_obl, "discharged": n_dis,
        "sub_vcs": len(d["vcs"]), "paths": d["paths"],
        "checker_cmd": "bin/check %s --tier %s  (pyvc: Python ast -> SMT VCs; z3 %s API + /usr/bin/cvc5 CLI)" % (
            pid, tier, z3.get_version_string()),
        "trusted_base": trusted,
        "functions_under_contract": d["fn_info"],
        "lemmas": prop.get("lemmas", []),
        "by_backend": by_backend,
        "solver_time_s": round(solver_time, 2),
        "generation_time_s": round(d["gen_s"], 2),
        "unrolled_by_constant": sorted(V.unrolled),
        "extraction_drops": EXTRACTION_DROPS,
        "inlined_callees": sorted(set(V.notes)),
        "vacuity_probes": {"run": d["probes"], "vacuous": d["vacuous"]},
        "undecided": [list(u) for u in d["undecided"]],
        "failed_obligations": sorted(failed),
        "known_findings_reported": sorted(reported_kf),
        "bounded": [{"stand_in": s["module"], "bound": s.get("bound", ""), "evaluations": s.get("evaluations", 0),
                     "distinct_nontrivial": s.get("distinct_nontrivial", 0), "failures": len(s.get("failures", [])),
                     "wall_s": s.get("wall_s"), "note": "bounded run-time check of the same property on the real "
                     "code; NOT counted in discharged"} for s in standins],
        "samples": samples,
        "assumed_contract_conformance": {"evaluations": conformance.get("evaluations", 0), "tags": conformance.get("tags", []),
                                         "failures": conformance.get("failures", []), "error": conformance.get("error")},
        "repo_files_sha256": d["repo"].file_sha,
        "explanation": prop.get("text", ""),
    }
    if level != "proof":
        cov["evaluations"] = sum(s.get("evaluations", 0) for s in standins)
        cov["distinct_nontrivial"] = sum(s.get("distinct_nontrivial", 0) for s in standins)
        cov["rule"] = "; ".join(s.get("rule", "") for s in standins if s.get("rule"))
    ev = {"property_id": pid, "tier": tier, "seed": seed, "level": level, "coverage": cov,
          "assumptions": trusted + ENCODING_ASSUMPTIONS + [prop.get("note", "")],
          "wall_s": round(time.time() - t0, 2), "violations": len(violations)}
    # evidence/<id>.json describes a run on /repo itself; a run on another tree (VERIF_REPO=<scratch copy>, used when
    # replaying seeded changes) writes next to it, under .cache/, so that it can never be mistaken for the former
    alt = os.environ.get("VERIF_REPO") and os.path.realpath(os.environ["VERIF_REPO"]) != os.path.realpath("/repo")
    ev_dir = os.path.join(ROOT, ".cache", "evidence-other-tree") if alt else os.path.join(ROOT, "evidence")
    os.makedirs(ev_dir, exist_ok=True)
    with open(os.path.join(ev_dir, pid + ".json"), "w") as f:
        json.dump(ev, f, indent=1, default=str)

    if args.update_baseline:
        baseline[pid] = {n: o["status"] for n, o in obs.items()}
        baseline.setdefault("_functions", {}).update(fn_sha)
        baseline["_contracts_hash"] = d["contracts_hash"]
        baseline["_files"] = d["file_sha"]
        os.makedirs(os.path.dirname(BASELINE), exist_ok=True)
        with open(BASELINE, "w") as f:
            json.dump(baseline, f, indent=1, sort_keys=True)

    # ---------------- report
    print("property %s tier=%s: %d obligations (%d sub-VCs, %d paths), %d discharged; backends %s; solver %.1fs; wall %.1fs"
          % (pid, tier, n_obl, len(d["vcs"]), d["paths"], n_dis, by_backend, solver_time, time.time() - t0))
    for s in standins:
        print("  bounded stand-in %s: %s evaluations, %d failures%s" % (
            s["module"], s.get("evaluations"), len(s.get("failures", [])), " ERROR " + s["error"] if s.get("error") else ""))
    for line in known_lines:
        print(line)
    if args.verbose:
        for n, o in sorted(obs.items()):
            print("   %-9s %6.2fs %s" % (o["status"], o["time"], n))
    if disagree:
        print("CHECKER-ERROR solver disagreement on: %s" % disagree)
        return 3
    if conformance.get("failures") or conformance.get("error"):
        print("CHECKER-ERROR an assumed library contract does not hold for the installed library: %s" % (
            conformance.get("failures") or conformance.get("error")))
        return 3
    if d["vacuous"]:
        print("CHECKER-ERROR vacuous hypotheses in: %s" % d["vacuous"])
        return 3
    if n_obl == 0 and not standins:
        print("CHECKER-ERROR zero obligations generated")
        return 3
    if violations:
        for name, path, has_input in violations:
            print("failed obligation: %s" % name)
            print("VIOLATION property=%s replay=%s%s" % (pid, path, "" if has_input else " no-failing-input-found"))
        return 1
    if unstable:
        print("CHECKER-ERROR solver instability (code and contracts unchanged, previously proved): %s" % unstable)
        return 3
    if standin_err:
        print("CHECKER-ERROR stand-in crashed: %s" % standin_err[0]["error"][-800:])
        return 3
    if d["undecided"]:
        for u in d["undecided"]:
            print("UNDECIDED %s: %s" % u)
        return 2
    return 0


if __name__ == "__main__":
    sys.exit(main())
