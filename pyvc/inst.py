"""Quantifier instantiation: all VCs sent to the solvers are quantifier-free.

A Schema is `forall vars. body`.  It is instantiated
  * at every ground term of the variable's sort occurring in the VC (sort trigger), or
  * at every match of its pattern(s) (pattern trigger; multi-patterns are joined).
Instances can introduce new ground terms; `rounds` bounds the iteration.
"""
import itertools
import z3


def _children(e):
    try:
        return e.children()
    except Exception:
        return []


def collect_terms(exprs, seen=None, out=None):
    """All distinct subterms (as list) of the given ground expressions."""
    if seen is None:
        seen = set()
    if out is None:
        out = []
    stack = list(exprs)
    while stack:
        e = stack.pop()
        i = e.get_id()
        if i in seen:
            continue
        seen.add(i)
        out.append(e)
        if z3.is_app(e):
            stack.extend(e.children())
    return out


def _sort_key(s):
    return s.sexpr() if hasattr(s, "sexpr") else str(s)


def match(pat, term, varids, binding):
    """Syntactic match of pattern against ground term.  binding: dict varid -> term."""
    pid = pat.get_id()
    if pid in varids:
        b = binding.get(pid)
        if b is None:
            if _sort_key(pat.sort()) != _sort_key(term.sort()):
                return None
            nb = dict(binding)
            nb[pid] = term
            return nb
        return binding if b.eq(term) else None
    if not (z3.is_app(pat) and z3.is_app(term)):
        return binding if pat.eq(term) else None
    if pat.num_args() == 0:
        return binding if pat.eq(term) else None
    if not pat.decl().eq(term.decl()) or pat.num_args() != term.num_args():
        return None
    for pc, tc in zip(pat.children(), term.children()):
        binding = match(pc, tc, varids, binding)
        if binding is None:
            return None
    return binding


def _contains_var(e, varids, cache):
    i = e.get_id()
    if i in cache:
        return cache[i]
    if i in varids:
        cache[i] = True
        return True
    r = any(_contains_var(c, varids, cache) for c in _children(e))
    cache[i] = r
    return r


_FAM_CACHE = {}


def _consts_of(e, want):
    """ids of uninterpreted constants of array (or sequence) sort occurring in e"""
    key = (e.get_id(), want)
    r = _FAM_CACHE.get(key)
    if r is not None:
        return r
    out = set()
    stack = [e]
    seen = set()
    while stack:
        x = stack.pop()
        i = x.get_id()
        if i in seen:
            continue
        seen.add(i)
        if z3.is_app(x):
            if x.num_args() == 0:
                if x.decl().kind() == z3.Z3_OP_UNINTERPRETED:
                    sk = x.sort().kind()
                    if (want == "array" and sk == z3.Z3_ARRAY_SORT) or (want == "seq" and sk == z3.Z3_SEQ_SORT):
                        out.add(i)
            else:
                stack.extend(x.children())
    _FAM_CACHE[key] = out
    return out


def array_consts(e):
    return _consts_of(e, "array")


def seq_consts(e):
    return _consts_of(e, "seq")


def schema_family(sc):
    f = getattr(sc, "_family", None)
    if f is None:
        f = array_consts(sc.body) | seq_consts(sc.body)
        sc._family = f
    return f


MAX_TERMS_PER_SORT = 80
MAX_INSTANCES = 3000


def instantiate(ground, schemas, rounds=2, extra_terms=(), relevance=True):
    """Return list of ground instances (z3 Bool) of `schemas` over the terms of `ground`."""
    instances = []
    done = set()  # (schema index, tuple of term ids)
    all_ground = list(ground)
    new_exprs = list(ground) + list(extra_terms)
    seen = set()
    terms = []
    for rnd in range(rounds):
        fresh_terms = collect_terms(new_exprs, seen, [])
        if not fresh_terms:
            break
        terms.extend(fresh_terms)
        new_exprs = []
        # pool for sort-triggered schemas: "key terms" = indices of array reads/writes and values
        # read from arrays, plus explicitly supplied extra terms.  Each pooled term remembers the array
        # constants it was used with; a schema is instantiated at a term only if they share one
        # (relevance filter; incompleteness can only lose proofs).
        by_sort = {}
        pooled = {}

        def pool_add(t, fam):
            e = pooled.get(t.get_id())
            if e is None:
                e = [t, set()]
                pooled[t.get_id()] = e
                by_sort.setdefault(_sort_key(t.sort()), []).append(e)
            if fam is None:
                e[1] = None
            elif e[1] is not None:
                e[1] |= fam
        for t in extra_terms:
            pool_add(t, None)
        for t in terms:
            if not z3.is_app(t):
                continue
            k = t.decl().kind()
            if k == z3.Z3_OP_SELECT:
                fam = array_consts(t.arg(0))
                pool_add(t.arg(1), fam)
                if not z3.is_bool(t):
                    pool_add(t, fam)
            elif k == z3.Z3_OP_STORE:
                pool_add(t.arg(1), array_consts(t.arg(0)))
            elif k == z3.Z3_OP_SEQ_NTH:
                pool_add(t.arg(1), seq_consts(t.arg(0)))
            elif k in (z3.Z3_OP_SEQ_EXTRACT, z3.Z3_OP_SEQ_AT):
                pool_add(t.arg(1), None)      # s[i] / s[i:j] positions
            elif k == z3.Z3_OP_UNINTERPRETED and t.decl().name().startswith("sk."):
                pool_add(t, None)      # skolem witnesses of opaque predicate definitions
        str_lits = None
        decl_names = None
        for si, sc in enumerate(schemas):
            nd = getattr(sc, "needs_decls", None)
            if nd is not None:
                if decl_names is None:
                    decl_names = set()
                    for t in terms:
                        if z3.is_app(t) and t.decl().kind() == z3.Z3_OP_UNINTERPRETED:
                            decl_names.add(t.decl().name())
                if not (decl_names & nd):
                    continue
            lits = getattr(sc, "lits", None)
            if lits is not None:
                if str_lits is None:
                    str_lits = set()
                    for t in terms:
                        if z3.is_string_value(t):
                            str_lits.add(t.as_string())
                if not (str_lits & lits):
                    continue
            max_round = getattr(sc, "rounds", rounds)
            if rnd >= max_round:
                continue
            varids = {v.get_id(): v for v in sc.vars}
            bindings = []
            if sc.triggers is not None:
                for multi in sc.triggers:
                    # multi: list of patterns to be matched jointly
                    partial = [dict()]
                    for pat in multi:
                        nxt = []
                        for t in terms:
                            if not z3.is_app(t) or t.num_args() == 0:
                                if pat.get_id() not in varids:
                                    continue
                            for b in partial:
                                nb = match(pat, t, varids, b)
                                if nb is not None:
                                    nxt.append(nb)
                        partial = nxt
                        if len(partial) > MAX_INSTANCES:
                            partial = partial[:MAX_INSTANCES]
                        if not partial:
                            break
                    for b in partial:
                        if len(b) == len(varids):
                            bindings.append(b)
                        else:
                            # variables the patterns do not bind range over the key-term pool of their sort
                            rest = [v for v in sc.vars if v.get_id() not in b]
                            pools = [[(v.get_id(), e[0]) for e in by_sort.get(_sort_key(v.sort()), [])[:MAX_TERMS_PER_SORT]]
                                     for v in rest]
                            for combo in itertools.product(*pools):
                                nb = dict(b)
                                nb.update(dict(combo))
                                bindings.append(nb)
            else:
                pools = []
                fam_sc = schema_family(sc)
                for v in sc.vars:
                    pool = [e[0] for e in by_sort.get(_sort_key(v.sort()), [])
                            if (not relevance) or e[1] is None or not fam_sc or (e[1] & fam_sc)][:MAX_TERMS_PER_SORT]
                    pools.append([(v.get_id(), t) for t in pool])
                n = 1
                for p in pools:
                    n *= max(1, len(p))
                if n > MAX_INSTANCES:
                    # restrict each pool
                    k = max(2, int(MAX_INSTANCES ** (1.0 / max(1, len(pools)))))
                    pools = [p[:k] for p in pools]
                for combo in itertools.product(*pools):
                    bindings.append(dict(combo))
            for b in bindings:
                key = (si, tuple(b[v.get_id()].get_id() for v in sc.vars))
                if key in done:
                    continue
                done.add(key)
                inst = z3.substitute(sc.body, *[(v, b[v.get_id()]) for v in sc.vars])
                inst = z3.simplify(inst, som=False, flat=True) if False else inst
                if z3.is_true(inst):
                    continue
                instances.append(inst)
                new_exprs.append(inst)
                if len(instances) > MAX_INSTANCES:
                    return instances
    return instances
