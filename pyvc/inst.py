"""Quantifier instantiation: all VCs sent to the solvers are quantifier-free.

A Schema is `forall vars. body`.  It is instantiated
  * at every ground term of the variable's sort occurring in the VC (sort trigger), or
  * at every match of its pattern(s) (pattern trigger; multi-patterns are joined).
Instances can introduce new ground terms; `rounds` bounds the iteration.
"""
import itertools
import z3


def _children(e):
    try:
        return e.children()
    except Exception:
        return []


def collect_terms(exprs, seen=None, out=None):
    """All distinct subterms (as list) of the given ground expressions."""
    if seen is None:
        seen = set()
    if out is None:
        out = []
    stack = list(exprs)
    while stack:
        e = stack.pop()
        i = e.get_id()
        if i in seen:
            continue
        seen.add(i)
        out.append(e)
        if z3.is_app(e):
            stack.extend(e.children())
    return out


def _sort_key(s):
    return s.sexpr() if hasattr(s, "sexpr") else str(s)


def match(pat, term, varids, binding):
    """Syntactic match of pattern against ground term.  binding: dict varid -> term."""
    pid = pat.get_id()
    if pid in varids:
        b = binding.get(pid)
        if b is None:
            if _sort_key(pat.sort()) != _sort_key(term.sort()):
                return None
            nb = dict(binding)
            nb[pid] = term
            return nb
        return binding if b.eq(term) else None
    if not (z3.is_app(pat) and z3.is_app(term)):
        return binding if pat.eq(term) else None
    if pat.num_args() == 0:
        return binding if pat.eq(term) else None
    if not pat.decl().eq(term.decl()) or pat.num_args() != term.num_args():
        return None
    for pc, tc in zip(pat.children(), term.children()):
        binding = match(pc, tc, varids, binding)
        if binding is None:
            return None
    return binding


def _contains_var(e, varids, cache):
    i = e.get_id()
    if i in cache:
        return cache[i]
    if i in varids:
        cache[i] = True
        return True
    r = any(_contains_var(c, varids, cache) for c in _children(e))
    cache[i] = r
    return r


MAX_TERMS_PER_SORT = 80
MAX_INSTANCES = 6000


def instantiate(ground, schemas, rounds=2, extra_terms=()):
    """Return list of ground instances (z3 Bool) of `schemas` over the terms of `ground`."""
    instances = []
    done = set()  # (schema index, tuple of term ids)
    all_ground = list(ground)
    new_exprs = list(ground) + list(extra_terms)
    seen = set()
    terms = []
    for rnd in range(rounds):
        fresh_terms = collect_terms(new_exprs, seen, [])
        if not fresh_terms:
            break
        terms.extend(fresh_terms)
        new_exprs = []
        # pool for sort-triggered schemas: "key terms" = indices of array reads/writes and values
        # read from arrays, plus explicitly supplied extra terms
        by_sort = {}
        pooled = set()

        def pool_add(t):
            if t.get_id() in pooled:
                return
            pooled.add(t.get_id())
            by_sort.setdefault(_sort_key(t.sort()), []).append(t)
        for t in extra_terms:
            pool_add(t)
        for t in terms:
            if not z3.is_app(t):
                continue
            k = t.decl().kind()
            if k == z3.Z3_OP_SELECT:
                pool_add(t.arg(1))
                if not z3.is_bool(t):
                    pool_add(t)
            elif k == z3.Z3_OP_STORE:
                pool_add(t.arg(1))
        for si, sc in enumerate(schemas):
            max_round = getattr(sc, "rounds", rounds)
            if rnd >= max_round:
                continue
            varids = {v.get_id(): v for v in sc.vars}
            bindings = []
            if sc.triggers is not None:
                for multi in sc.triggers:
                    # multi: list of patterns to be matched jointly
                    partial = [dict()]
                    for pat in multi:
                        nxt = []
                        for t in terms:
                            if not z3.is_app(t) or t.num_args() == 0:
                                if pat.get_id() not in varids:
                                    continue
                            for b in partial:
                                nb = match(pat, t, varids, b)
                                if nb is not None:
                                    nxt.append(nb)
                        partial = nxt
                        if len(partial) > MAX_INSTANCES:
                            partial = partial[:MAX_INSTANCES]
                        if not partial:
                            break
                    for b in partial:
                        if len(b) == len(varids):
                            bindings.append(b)
            else:
                pools = []
                for v in sc.vars:
                    pool = by_sort.get(_sort_key(v.sort()), [])[:MAX_TERMS_PER_SORT]
                    pools.append([(v.get_id(), t) for t in pool])
                n = 1
                for p in pools:
                    n *= max(1, len(p))
                if n > MAX_INSTANCES:
                    # restrict each pool
                    k = max(2, int(MAX_INSTANCES ** (1.0 / max(1, len(pools)))))
                    pools = [p[:k] for p in pools]
                for combo in itertools.product(*pools):
                    bindings.append(dict(combo))
            for b in bindings:
                key = (si, tuple(b[v.get_id()].get_id() for v in sc.vars))
                if key in done:
                    continue
                done.add(key)
                inst = z3.substitute(sc.body, *[(v, b[v.get_id()]) for v in sc.vars])
                inst = z3.simplify(inst, som=False, flat=True) if False else inst
                if z3.is_true(inst):
                    continue
                instances.append(inst)
                new_exprs.append(inst)
                if len(instances) > MAX_INSTANCES:
                    return instances
    return instances
