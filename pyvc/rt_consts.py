"""Runs under the repo's interpreter (/venv/bin/python, PYTHONPATH=<working tree>):
dump module-level and class-level constants of the netconan modules as JSON."""
import enum
import importlib
import json
import re
import sys
import logging

logging.disable(logging.CRITICAL)

MODS = [
    "netconan.ip_anonymization",
    "netconan.sensitive_item_removal",
    "netconan.anonymize_files",
    "netconan.netconan",
    "netconan.utils.juniper_secrets",
    "netconan.default_pwd_regexes",
]


def enc(v, depth=0):
    if depth > 6:
        return None
    if v is None:
        return {"t": "none", "v": None}
    if isinstance(v, bool):
        return {"t": "bool", "v": v}
    if isinstance(v, enum.Enum):
        return {"t": "enum", "cls": type(v).__name__, "name": v.name, "value": v.value}
    if isinstance(v, int):
        return {"t": "int", "v": v}
    if isinstance(v, str):
        return {"t": "str", "v": v}
    if isinstance(v, re.Pattern):
        return {"t": "pattern", "pattern": v.pattern, "flags": v.flags}
    if isinstance(v, (list, tuple)):
        items = [enc(x, depth + 1) for x in v]
        if any(i is None for i in items):
            return None
        return {"t": "list" if isinstance(v, list) else "tuple", "v": items}
    if isinstance(v, (set, frozenset)):
        if len(v) > 20000:
            return None
        items = [enc(x, depth + 1) for x in sorted(v, key=repr)]
        if any(i is None for i in items):
            return None
        return {"t": "set", "v": items}
    if isinstance(v, dict):
        items = []
        for k, x in v.items():
            a, b = enc(k, depth + 1), enc(x, depth + 1)
            if a is None or b is None:
                return None
            items.append([a, b])
        return {"t": "dict", "v": items}
    return None


out = {}
for m in MODS:
    mod = importlib.import_module(m)
    d = {}
    for k, v in vars(mod).items():
        if k.startswith("__"):
            continue
        e = enc(v)
        if e is not None:
            d[k] = e
        if isinstance(v, type) and v.__module__ == m:
            for ck, cv in vars(v).items():
                if ck.startswith("__"):
                    continue
                ce = enc(cv)
                if ce is not None:
                    d["%s.%s" % (k, ck)] = ce
            if issubclass(v, enum.Enum):
                for mem in v:
                    d["%s.%s" % (k, mem.name)] = enc(mem)
    out[m] = d
json.dump(out, sys.stdout)
