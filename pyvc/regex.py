"""Real regular expressions -> SMT RegLan.

The pattern *string* of the working tree's compiled pattern is parsed with CPython's own parser
(`re._parser`) and the tree is mapped to z3 regular-language terms.  Assertions (look-behind /
look-ahead / anchors) are not part of RegLan: `split_context` peels the leading and trailing
assertions off a top-level sequence so that callers can reason about  context x body  structurally.
Capture-group extents under backtracking priority are NOT modelled (stated in DESIGN.md 3.6).
"""
import json
import os
import subprocess
import sys

import z3

try:
    import re._parser as sre_parse
    import re._constants as sre_c
except ImportError:  # pragma: no cover
    import sre_parse
    import sre_constants as sre_c

MAXCHAR = 0x2FFFF  # z3's character sort


class RegexUnsupported(Exception):
    pass


_CAT_CACHE = {}


def category_intervals(cat):
    """Exact code-point intervals of \\d \\s \\w (str patterns), asked from the repo's interpreter once."""
    if not _CAT_CACHE:
        from .repo import VENV_PY
        code = r'''
import re, json
out = {}
for name, pat in (("digit", r"\d"), ("space", r"\s"), ("word", r"\w")):
    p = re.compile(pat)
    iv, start = [], None
    for cp in range(0, 0x30000):
        m = p.match(chr(cp)) is not None
        if m and start is None:
            start = cp
        if not m and start is not None:
            iv.append([start, cp - 1]); start = None
    if start is not None:
        iv.append([start, 0x2FFFF])
    out[name] = iv
print(json.dumps(out))
'''
        r = subprocess.run([VENV_PY, "-c", code], capture_output=True, text=True)
        _CAT_CACHE.update(json.loads(r.stdout))
    return _CAT_CACHE[cat]


def ch(cp):
    return z3.StringVal(chr(cp))


def rng(lo, hi):
    if lo == hi:
        return z3.Re(ch(lo))
    return z3.Range(ch(lo), ch(hi))


def union(parts):
    parts = list(parts)
    if not parts:
        return z3.Empty(z3.ReSort(z3.StringSort()))
    if len(parts) == 1:
        return parts[0]
    return z3.Union(*parts)


def intervals_re(iv):
    return union(rng(a, b) for a, b in iv)


ANYCHAR = rng(0, MAXCHAR)
EPS = z3.Re(z3.StringVal(""))
NONE = z3.Empty(z3.ReSort(z3.StringSort()))
ALL = z3.Star(ANYCHAR)


def complement_intervals(iv):
    out, prev = [], 0
    for a, b in sorted(iv):
        if a > prev:
            out.append([prev, a - 1])
        prev = max(prev, b + 1)
    if prev <= MAXCHAR:
        out.append([prev, MAXCHAR])
    return out


def merge_intervals(iv):
    out = []
    for a, b in sorted(iv):
        if out and a <= out[-1][1] + 1:
            out[-1][1] = max(out[-1][1], b)
        else:
            out.append([a, b])
    return out


def case_expand(iv):
    """IGNORECASE on ASCII letters (non-ASCII case folding is not needed by netconan's patterns and not modelled)."""
    out = list(iv)
    for a, b in iv:
        for lo, hi, d in ((65, 90, 32), (97, 122, -32)):
            x, y = max(a, lo), min(b, hi)
            if x <= y:
                out.append([x + d, y + d])
    return merge_intervals(out)


def cat_intervals(c):
    name = str(c)
    neg = "NOT" in name
    base = {"DIGIT": "digit", "SPACE": "space", "WORD": "word"}
    for k, v in base.items():
        if k in name:
            iv = [list(x) for x in category_intervals(v)]
            return complement_intervals(iv) if neg else iv
    raise RegexUnsupported("category %s" % name)


def set_intervals(items, ignorecase):
    neg = False
    iv = []
    for op, av in items:
        if op is sre_c.NEGATE:
            neg = True
        elif op is sre_c.LITERAL:
            iv.append([av, av])
        elif op is sre_c.RANGE:
            iv.append([av[0], av[1]])
        elif op is sre_c.CATEGORY:
            iv.extend(cat_intervals(av))
        else:
            raise RegexUnsupported("set item %s" % op)
    iv = merge_intervals(iv)
    if ignorecase:
        iv = case_expand(iv)
    if neg:
        iv = complement_intervals(iv)
    return iv


def is_assert(item):
    op, av = item
    if op in (sre_c.ASSERT, sre_c.ASSERT_NOT, sre_c.AT):
        return True
    if op is sre_c.SUBPATTERN and av[0] is None:
        return all_asserts(av[3])
    if op is sre_c.BRANCH:
        return all(all_asserts(b) for b in av[1])
    if op in (sre_c.MAX_REPEAT, sre_c.MIN_REPEAT):
        return all_asserts(av[2])
    return False


def all_asserts(seq):
    items = list(seq)
    return bool(items) and all(is_assert(i) for i in items)


def to_re(seq, ignorecase=False):
    """Sequence of parse-tree items (assertion-free) -> RegLan."""
    parts = []
    for op, av in seq:
        parts.append(item_re(op, av, ignorecase))
    if not parts:
        return EPS
    if len(parts) == 1:
        return parts[0]
    return z3.Concat(*parts)


def item_re(op, av, ic):
    if op is sre_c.LITERAL:
        return intervals_re(case_expand([[av, av]]) if ic else [[av, av]])
    if op is sre_c.NOT_LITERAL:
        iv = case_expand([[av, av]]) if ic else [[av, av]]
        return intervals_re(complement_intervals(iv))
    if op is sre_c.ANY:
        return intervals_re(complement_intervals([[10, 10]]))   # '.' without DOTALL
    if op is sre_c.IN:
        return intervals_re(set_intervals(av, ic))
    if op is sre_c.BRANCH:
        return union(to_re(b, ic) for b in av[1])
    if op is sre_c.SUBPATTERN:
        group, add_flags, del_flags, p = av
        if add_flags or del_flags:
            raise RegexUnsupported("inline flags")
        return to_re(p, ic)
    if op in (sre_c.MAX_REPEAT, sre_c.MIN_REPEAT):
        lo, hi, p = av
        r = to_re(p, ic)
        if hi is sre_c.MAXREPEAT:
            if lo == 0:
                return z3.Star(r)
            if lo == 1:
                return z3.Plus(r)
            return z3.Concat(z3.Loop(r, lo, lo), z3.Star(r))
        if lo == 0 and hi == 1:
            return z3.Option(r)
        return z3.Loop(r, lo, hi)
    if op is sre_c.CATEGORY:
        return intervals_re(cat_intervals(av))
    raise RegexUnsupported("regex construct %s" % op)


class Parsed:
    def __init__(self, pattern, flags):
        self.pattern, self.flags = pattern, flags
        self.tree = sre_parse.parse(pattern, flags)
        self.ic = bool(flags & sre_c.SRE_FLAG_IGNORECASE)
        if flags & (sre_c.SRE_FLAG_MULTILINE | sre_c.SRE_FLAG_DOTALL | sre_c.SRE_FLAG_VERBOSE):
            raise RegexUnsupported("flags %d" % flags)

    def items(self):
        return list(self.tree)

    def split_context(self):
        """(leading assertions, body items, trailing assertions) of the top-level sequence."""
        items = self.items()
        i = 0
        while i < len(items) and is_assert(items[i]):
            i += 1
        j = len(items)
        while j > i and is_assert(items[j - 1]):
            j -= 1
        body = items[i:j]
        for it in body:
            if contains_assert(it):
                raise RegexUnsupported("assertion inside the body")
        return items[:i], body, items[j:]

    def body_re(self):
        return to_re(self.split_context()[1], self.ic)

    def top_alternatives(self):
        """If the body is one capturing group whose content is a BRANCH, the ordered alternatives."""
        _, body, _ = self.split_context()
        if len(body) == 1 and body[0][0] is sre_c.SUBPATTERN:
            p = list(body[0][1][3])
            if len(p) == 1 and p[0][0] is sre_c.BRANCH:
                return [to_re(b, self.ic) for b in p[0][1][1]]
        return [to_re(body, self.ic)]


def contains_assert(item):
    op, av = item
    if op in (sre_c.ASSERT, sre_c.ASSERT_NOT, sre_c.AT):
        return True
    if op is sre_c.SUBPATTERN:
        return any(contains_assert(i) for i in av[3])
    if op is sre_c.BRANCH:
        return any(contains_assert(i) for b in av[1] for i in b)
    if op in (sre_c.MAX_REPEAT, sre_c.MIN_REPEAT):
        return any(contains_assert(i) for i in av[2])
    return False


def context_class(asserts, direction):
    """For the pinned-context shape: the assertion(s) say 'edge of the string OR one character NOT in C'.
    Returns the interval set C, or None if the shape is different.
    direction -1: look-behind (at the start of the match), +1: look-ahead (at its end).
    Optional assertions `(?=...)?` never constrain matching and are skipped."""
    def alts_of(seq):
        seq = list(seq)
        if len(seq) != 1:
            return None
        op, av = seq[0]
        if op is sre_c.BRANCH:
            out = []
            for b in av[1]:
                k = alts_of(b)
                if k is None:
                    return None
                out.extend(k)
            return out
        if op is sre_c.ASSERT:
            if av[0] != direction:
                return None
            return alts_of(av[1])
        if op is sre_c.SUBPATTERN and av[0] is None:
            return alts_of(av[3])
        if op is sre_c.AT:
            return [("edge", str(av))]
        if op is sre_c.IN:
            return [("class", set_intervals(av, False))]
        if op is sre_c.CATEGORY:
            return [("class", cat_intervals(av))]
        return None

    mandatory = [it for it in asserts if not (it[0] in (sre_c.MAX_REPEAT, sre_c.MIN_REPEAT) and it[1][0] == 0)]
    if len(mandatory) != 1:
        return None
    kinds = alts_of([mandatory[0]])
    if kinds is None:
        return None
    edge = any(k[0] == "edge" for k in kinds)
    cls = []
    for k in kinds:
        if k[0] == "class":
            cls.extend(k[1])
    if not edge or not cls:
        return None
    return complement_intervals(merge_intervals(cls))


def witness(model_str):
    return model_str


def check_empty(lang, timeout=60):
    """Is the regular language empty?  returns ('unsat', None) when empty, ('sat', witness) otherwise."""
    s = z3.Solver()
    s.set("timeout", int(timeout * 1000))
    w = z3.String("w")
    s.add(z3.InRe(w, lang))
    r = s.check()
    if str(r) == "sat":
        return "sat", s.model()[w].as_string()
    return str(r), None
