"""Extraction of the real code: ast of the working tree, module constants via the repo's own interpreter."""
import ast
import hashlib
import json
import os
import subprocess

REPO = os.environ.get("VERIF_REPO", "/repo")
VENV_PY = os.environ.get("VERIF_PY", "/venv/bin/python")

MODULES = {
    "netconan.ip_anonymization": "netconan/ip_anonymization.py",
    "netconan.sensitive_item_removal": "netconan/sensitive_item_removal.py",
    "netconan.anonymize_files": "netconan/anonymize_files.py",
    "netconan.netconan": "netconan/netconan.py",
    "netconan.utils.juniper_secrets": "netconan/utils/juniper_secrets.py",
    "netconan.default_pwd_regexes": "netconan/default_pwd_regexes.py",
}

EXTRACTION_DROPS = [
    "comments", "docstrings", "type hints/annotations",
    "decorators @classmethod/@abstractmethod (used for dispatch only)",
    "from __future__ imports",
]


class FuncInfo:
    def __init__(self, module, qualname, node, cls, source):
        self.module, self.qualname, self.node, self.cls, self.source = module, qualname, node, cls, source
        self.is_classmethod = any(
            isinstance(d, ast.Name) and d.id == "classmethod" for d in node.decorator_list)
        self.sha = hashlib.sha256(source.encode()).hexdigest()

    @property
    def key(self):
        return "%s:%s" % (self.module, self.qualname)


class ClassInfo:
    def __init__(self, module, name, node):
        self.module, self.name, self.node = module, name, node
        self.bases = [b.id for b in node.bases if isinstance(b, ast.Name)]
        self.methods = {}
        self.consts = {}  # name -> ast expr


class Repo:
    def __init__(self, root=None):
        self.root = root or REPO
        self.trees = {}
        self.src = {}
        self.funcs = {}
        self.classes = {}
        self.imports = {}  # module -> {local name: ('mod', modname) | ('obj', modname, name)}
        self.file_sha = {}
        for mod, rel in MODULES.items():
            p = os.path.join(self.root, rel)
            with open(p) as f:
                text = f.read()
            self.src[mod] = text
            self.file_sha[rel] = hashlib.sha256(text.encode()).hexdigest()
            tree = ast.parse(text)
            self.trees[mod] = tree
            self._index(mod, tree, text)
        self._consts = None

    def _index(self, mod, tree, text):
        imps = {}
        for node in tree.body:
            if isinstance(node, ast.FunctionDef):
                self.funcs["%s:%s" % (mod, node.name)] = FuncInfo(
                    mod, node.name, node, None, ast.get_source_segment(text, node))
            elif isinstance(node, ast.ClassDef):
                ci = ClassInfo(mod, node.name, node)
                self.classes["%s:%s" % (mod, node.name)] = ci
                for sub in node.body:
                    if isinstance(sub, ast.FunctionDef):
                        fi = FuncInfo(mod, "%s.%s" % (node.name, sub.name), sub, node.name,
                                      ast.get_source_segment(text, sub))
                        self.funcs[fi.key] = fi
                        ci.methods[sub.name] = fi
                    elif isinstance(sub, ast.Assign) and len(sub.targets) == 1 and isinstance(sub.targets[0], ast.Name):
                        ci.consts[sub.targets[0].id] = sub.value
            elif isinstance(node, ast.Import):
                for a in node.names:
                    imps[a.asname or a.name.split(".")[0]] = ("mod", a.name if a.asname else a.name.split(".")[0])
            elif isinstance(node, ast.ImportFrom):
                if node.module == "__future__":
                    continue
                base = node.module or ""
                if node.level:
                    pkg = mod.rsplit(".", node.level)[0]
                    base = pkg + ("." + base if base else "")
                for a in node.names:
                    imps[a.asname or a.name] = ("obj", base, a.name)
        self.imports[mod] = imps

    def find_method(self, module, clsname, meth):
        """Resolve method through the (single-module) class hierarchy."""
        seen = set()
        todo = [(module, clsname)]
        while todo:
            m, c = todo.pop(0)
            if (m, c) in seen:
                continue
            seen.add((m, c))
            ci = self.classes.get("%s:%s" % (m, c))
            if ci is None:
                continue
            if meth in ci.methods:
                return ci.methods[meth]
            for b in ci.bases:
                todo.append((m, b))
        return None

    def find_class_const(self, module, clsname, name):
        seen = set()
        todo = [(module, clsname)]
        while todo:
            m, c = todo.pop(0)
            if (m, c) in seen:
                continue
            seen.add((m, c))
            ci = self.classes.get("%s:%s" % (m, c))
            if ci is None:
                continue
            if name in ci.consts:
                return ci
            for b in ci.bases:
                todo.append((m, b))
        return None

    # -- module constants, by importing the working tree in the repo's interpreter
    def consts(self):
        if self._consts is None:
            helper = os.path.join(os.path.dirname(os.path.abspath(__file__)), "rt_consts.py")
            env = dict(os.environ)
            env["PYTHONPATH"] = self.root
            env["PYTHONDONTWRITEBYTECODE"] = "1"
            out = subprocess.run([VENV_PY, helper], capture_output=True, text=True, env=env, cwd="/")
            if out.returncode != 0:
                raise RuntimeError("cannot import working tree for constants: " + out.stderr[-2000:])
            self._consts = json.loads(out.stdout)
        return self._consts

    def const(self, module, name):
        c = self.consts().get(module, {})
        if name in c:
            return decode_const(c[name])
        raise KeyError((module, name))

    def has_const(self, module, name):
        return name in self.consts().get(module, {})


def decode_const(j):
    t = j["t"]
    if t in ("int", "str", "bool", "none", "float"):
        return j["v"]
    if t == "list":
        return [decode_const(x) for x in j["v"]]
    if t == "tuple":
        return tuple(decode_const(x) for x in j["v"])
    if t == "dict":
        return {decode_const(k): decode_const(v) for k, v in j["v"]}
    if t == "set":
        return frozenset(decode_const(x) for x in j["v"])
    if t == "pattern":
        return RePattern(j["pattern"], j["flags"])
    if t == "enum":
        return EnumMember(j["cls"], j["name"], j["value"])
    raise ValueError(t)


class RePattern:
    def __init__(self, pattern, flags):
        self.pattern, self.flags = pattern, flags

    def __repr__(self):
        return "RePattern(%r,%d)" % (self.pattern, self.flags)

    def __eq__(self, o):
        return isinstance(o, RePattern) and (self.pattern, self.flags) == (o.pattern, o.flags)

    def __hash__(self):
        return hash((self.pattern, self.flags))


class EnumMember:
    def __init__(self, cls, name, value):
        self.cls, self.name, self.value = cls, name, value

    def __repr__(self):
        return "%s.%s" % (self.cls, self.name)

    def __eq__(self, o):
        return isinstance(o, EnumMember) and (self.cls, self.name) == (o.cls, o.name)

    def __hash__(self):
        return hash((self.cls, self.name))
