"""Verifier: contracts <-> code.  Function verification, call-by-contract, loops, lemmas."""
import ast
import time
import z3

from .sym import *  # noqa
from .engine import (Unsupported, ContractMismatch, ReturnSig, RaiseSig, BreakSig, ContinueSig, PathCut, VC,
                     zint, zstr, bits_lit)
from .interp import Interp
from . import lib, inst, smt
from .lib import uf, ListV, cell


class Verifier(Interp):
    def __init__(self, repo, registry):
        self._def_schemas = {}
        self._lemma_schema_cache = {}
        self.usable_lemmas = []
        self.ih_schema = None
        super().__init__(repo, registry)

    def reset_path(self, prefix=()):
        super().reset_path(prefix)
        self.spec_envs = []
        self.try_stack = []
        self.allowed_raises = set()
        self.bv_mode = False
        self.module = None
        self.cur_fi = None
        self.old_heap = None
        self.inline_stack = []
        self.nondet = []   # fresh symbols standing for nondeterministic sources
        self._enum_cache = {}

    # ================================================================= spec formulas
    def parse(self, text):
        return ast.parse(text.strip(), mode="eval").body

    def formula(self, node):
        if isinstance(node, str):
            node = self.parse(node)
        if isinstance(node, ast.BoolOp) and isinstance(node.op, ast.And):
            return FAnd([self.formula(v) for v in node.values], [""] * len(node.values))
        if isinstance(node, ast.Call) and isinstance(node.func, ast.Name):
            fn = node.func.id
            if fn == "implies" and len(node.args) == 2:
                g = self.truth(self.ev(node.args[0]))
                if z3.is_false(z3.simplify(g)):
                    # guard concretely false: the consequent is not evaluated (it may not even be well defined,
                    # e.g. an index into a shorter constant row); implies(False, X) is True
                    return FImp(g, FG(z3.BoolVal(True)))
                return FImp(g, self.formula(node.args[1]))
            if fn == "all" and len(node.args) == 1 and isinstance(node.args[0], ast.GeneratorExp):
                return self.forall_formula(node.args[0])
            if fn == "any" and len(node.args) == 1 and isinstance(node.args[0], ast.GeneratorExp):
                fa = self.forall_formula(node.args[0])
                if isinstance(fa, FAll) and isinstance(fa.body, FG):
                    w = z3.Const(self.fresh_name("ex.w"), fa.vars[0].sort())
                    return FAny([w], z3.substitute(fa.guard, (fa.vars[0], w)), z3.substitute(fa.body.b, (fa.vars[0], w)))
                raise Unsupported("existential over a concrete or nested domain")
            if fn in self.reg.preds:
                args = [self.ev(a) for a in node.args]
                return self.pred_formula(fn, args)
        if isinstance(node, ast.IfExp):
            c = self.truth(self.ev(node.test))
            return FAnd([FImp(c, self.formula(node.body)), FImp(z3.Not(c), self.formula(node.orelse))], ["then", "else"])
        return FG(self.truth(self.ev(node)))

    def pred_formula(self, name, args):
        pr = self.reg.preds[name]
        if pr.opaque and not getattr(self, "_defining_pred", None) == name:
            flat = []
            for (pn, pty), a in zip(pr.params, args):
                flat.extend(self.flatten_arg(pty, a))
            return FG(self.pred_uf(pr)(*flat))
        env = {p: a for (p, _), a in zip(pr.params, args)}
        self.spec_envs.append(env)
        try:
            parts = [self.formula(e) for _, e in pr.clauses]
        finally:
            self.spec_envs.pop()
        return FAnd(parts, [lab for lab, _ in pr.clauses])

    def forall_formula(self, g):
        if len(g.generators) != 1:
            raise Unsupported("nested quantifier generators")
        gen = g.generators[0]
        dom = self.ev(gen.iter)
        c = cell(self, dom)
        names = [gen.target.id] if isinstance(gen.target, ast.Name) else [e.id for e in gen.target.elts]
        env = {}
        guard = z3.BoolVal(True)
        vars_ = []
        if isinstance(c, BimapV):
            c = c.fwd
        if isinstance(c, MapV):
            k = z3.Const(self.fresh_name("q." + names[0]), sort_of(c.kt))
            vars_, guard = [k], z3.Select(c.dom, k)
            env[names[0]] = P(c.kt, k)
        elif isinstance(c, P) and c.ty.kind == "set":
            k = z3.Const(self.fresh_name("q." + names[0]), sort_of(c.ty.args[0]))
            vars_, guard = [k], z3.Select(c.term, k)
            env[names[0]] = P(c.ty.args[0], k)
        elif isinstance(c, Special) and c.tag == "range":
            k = z3.Int(self.fresh_name("q." + names[0]))
            vars_ = [k]
            guard = z3.And(k >= self.term(c.lo, INT), k < self.term(c.hi, INT))
            env[names[0]] = P(INT, k)
        elif isinstance(c, Special) and c.tag == "typedom":
            k = z3.Const(self.fresh_name("q." + names[0]), sort_of(c.dom))
            vars_ = [k]
            env[names[0]] = P(c.dom, k)
        elif isinstance(c, P) and c.ty.kind == "seq" or isinstance(dom, OptV):
            sq = lib.seq_of(self, dom)
            k = z3.Int(self.fresh_name("q.i"))
            vars_ = [k]
            guard = z3.And(k >= 0, k < z3.Length(sq.term))
            env[names[0]] = P(sq.ty.args[0], sq.term[k])
        elif isinstance(c, (Conc, ListV, TupV)):
            # finite concrete domain: conjunction
            items = lib.iter_concrete(self, dom)
            parts = []
            for it in items:
                self.spec_envs.append({names[0]: it})
                try:
                    conds = [self.truth(self.ev(x)) for x in gen.ifs]
                    f = self.formula(g.elt)
                    parts.append(FImp(z3.And(conds), f) if conds else f)
                finally:
                    self.spec_envs.pop()
            return FAnd(parts)
        else:
            raise Unsupported("quantifier domain %r" % (c,))
        self.spec_envs.append(env)
        try:
            conds = [self.truth(self.ev(x)) for x in gen.ifs]
            if conds:
                guard = z3.And(guard, *conds)
            body = self.formula(g.elt)
        finally:
            self.spec_envs.pop()
        return FAll(vars_, guard, body)

    def formula_to_ground(self, f):
        if isinstance(f, FG):
            return f.b
        if isinstance(f, FAnd):
            return z3.And([self.formula_to_ground(p) for p in f.parts] or [z3.BoolVal(True)])
        if isinstance(f, FImp):
            return z3.Implies(f.g, self.formula_to_ground(f.body))
        raise Unsupported("quantified predicate used as a ground boolean")

    def spec_eval(self, fn, env=None):
        """Run fn() in spec mode with env pushed."""
        self.spec_mode += 1
        self.spec_envs.append(env or {})
        try:
            return fn()
        finally:
            self.spec_envs.pop()
            self.spec_mode -= 1

    # `old(e)` and friends need access to engine state -> implemented as special forms in ev_Call
    def ev_Call(self, n):
        if self.spec_mode and isinstance(n.func, ast.Name):
            fn = n.func.id
            if fn == "old" and len(n.args) == 1:
                saved = self.heap_override
                self.heap_override = self.old_heap if self.old_heap is not None else self.st.heap
                try:
                    v = self.ev(n.args[0])
                    if isinstance(v, Ref) and v.ty.kind in ("map", "bimap", "list", "setcell"):
                        v = self.heap_override[v.rid]   # snapshot of the cell content
                    elif isinstance(v, OptV) and isinstance(v.val, Ref) and v.val.ty.kind in ("map", "bimap", "list", "setcell"):
                        v = OptV(v.some, self.heap_override[v.val.rid])
                    return v
                finally:
                    self.heap_override = saved
            if fn in ("all", "any") and len(n.args) == 1 and isinstance(n.args[0], ast.GeneratorExp):
                # ground use of a bounded quantifier: only over concrete domains
                items = self.expand_genexp(Special("genexp", node=n.args[0], closure={}))
                ts = [self.truth(i) for i in items]
                return P(BOOL, (z3.And if fn == "all" else z3.Or)(ts or [z3.BoolVal(fn == "all")]))
        return super().ev_Call(n)

    def expand_genexp(self, g):
        n = g.node
        gen = n.generators[0]
        if len(n.generators) != 1:
            raise Unsupported("nested generators")
        saved = dict(self.st.vars)
        if g.closure and not self.spec_mode:
            pass
        items = lib.iter_concrete(self, self.ev(gen.iter))
        out = []
        try:
            for x in items:
                if self.spec_mode:
                    env = {}
                    self._bind_target(gen.target, x, env)
                    self.spec_envs.append(env)
                else:
                    self.assign(gen.target, x)
                try:
                    conds = [self.truth(self.ev(c)) for c in gen.ifs]
                    if conds:
                        c = z3.simplify(z3.And(conds))
                        if z3.is_false(c):
                            continue
                        if not z3.is_true(c):
                            raise Unsupported("generator filter with symbolic condition")
                    out.append(self.ev(n.elt))
                finally:
                    if self.spec_mode:
                        self.spec_envs.pop()
        finally:
            self.st.vars = saved
        return out

    def _bind_target(self, target, val, env):
        if isinstance(target, ast.Name):
            env[target.id] = val
        else:
            for t, v in zip(target.elts, lib.unpack(self, val, len(target.elts))):
                self._bind_target(t, v, env)

    # ================================================================= UF spec functions
    def flatten_arg(self, pty, a):
        """Flatten a spec-function argument to z3 terms (objects -> their config fields)."""
        if isinstance(a, OptV):
            a = a.val
        if isinstance(pty, Ty) and pty.kind == "obj":
            ot = self.reg.objtypes[pty.args[0]]
            out = []
            for f in ot.all_config(self.reg):
                if isinstance(a, Ref):
                    fv = self.get_field(a, f)
                elif isinstance(a, Special) and a.tag == "rec":
                    fv = a.fields[f]
                else:
                    raise Unsupported("object argument %r" % (a,))
                fty = ot.all_fields(self.reg)[f]
                out.append(self.term(fv, fty))
            return out
        return [self.term(a, pty)]

    def uf_decl(self, sf):
        sorts = []
        for _, pty in sf.params:
            if pty.kind == "obj":
                ot = self.reg.objtypes[pty.args[0]]
                for f in ot.all_config(self.reg):
                    sorts.append(sort_of(ot.all_fields(self.reg)[f]))
            else:
                sorts.append(sort_of(pty))
        sorts.append(sort_of(sf.ret))
        return uf("spec_" + sf.name, *sorts)

    def uf_spec_apply(self, sf, args):
        flat = []
        for (pn, pty), a in zip(sf.params, args):
            flat.extend(self.flatten_arg(pty, a))
        return P(sf.ret, self.uf_decl(sf)(*flat))

    def def_schema(self, sf):
        """Definitional axiom of a UF spec function: forall params. f(params) == body."""
        if sf.name in self._def_schemas:
            return self._def_schemas[sf.name]
        env = {}
        vars_ = []
        for pn, pty in sf.params:
            if pty.kind == "obj":
                ot = self.reg.objtypes[pty.args[0]]
                fields = {}
                for f in ot.all_config(self.reg):
                    fty = ot.all_fields(self.reg)[f]
                    c = z3.Const("%s.def.%s.%s" % (sf.name, pn, f), sort_of(fty))
                    vars_.append(c)
                    fields[f] = P(fty, c)
                env[pn] = Special("rec", fields=fields, cls=pty.args[0])
            else:
                c = z3.Const("%s.def.%s" % (sf.name, pn), sort_of(pty))
                vars_.append(c)
                env[pn] = P(pty, c)
        self._def_schemas[sf.name] = None  # recursion guard
        saved_envs, self.spec_envs = self.spec_envs, []
        saved_pc = self.st.pc
        self.st.pc = []
        try:
            body = self.spec_eval(lambda: self.coerce(self.ev(sf.node), sf.ret), env)
        finally:
            self.spec_envs = saved_envs
            self.st.pc = saved_pc
        app = self.uf_decl(sf)(*vars_)
        sc = Schema("def." + sf.name, vars_, app == self.term(body, sf.ret), triggers=[[app]], origin="def")
        self._def_schemas[sf.name] = sc
        return sc

    def pred_uf(self, pr):
        sorts = []
        for _, pty in pr.params:
            if pty.kind == "obj":
                ot = self.reg.objtypes[pty.args[0]]
                for f in ot.all_config(self.reg):
                    sorts.append(sort_of(ot.all_fields(self.reg)[f]))
            else:
                sorts.append(sort_of(pty))
        return uf("pred_" + pr.name, *sorts, z3.BoolSort())

    def pred_def_schemas(self, pr):
        """Opaque predicate P(params) <=> clauses, as two quantifier-free-instantiable schemas:
        (D1) P(params) => clause[k]   for every k;   (D2) clause[sk(params)] => P(params) (skolemised)."""
        key = "pred." + pr.name
        if key in self._def_schemas:
            return self._def_schemas[key]
        self._def_schemas[key] = []
        env, pvars = {}, []
        for pn, pty in pr.params:
            c = z3.Const("%s.def.%s" % (pr.name, pn), sort_of(pty))
            pvars.append(c)
            env[pn] = P(pty, c)
        atom = self.pred_uf(pr)(*pvars)
        saved_envs, self.spec_envs = self.spec_envs, []
        saved_st = self.st
        from .engine import State
        self.st = State()
        self._defining_pred = pr.name
        try:
            def build():
                f = FAnd([self.formula(e) for _, e in pr.clauses], [lab for lab, _ in pr.clauses])
                self.assume(FImp(atom, f), "def." + pr.name, vars_=pvars)
                return f
            f = self.spec_eval(build, env)
            d1 = list(self.st.schemas)
            ground1 = list(self.st.pc)
        finally:
            self._defining_pred = None
            self.st = saved_st
            self.spec_envs = saved_envs
        out = []
        for sc in d1:
            sc.triggers = [[atom]]
            sc.origin = "def"
            out.append(sc)
        for g in ground1:
            out.append(Schema("def.%s.g" % pr.name, pvars, g, triggers=[[atom]], origin="def"))
        # D2
        sk_subst = []

        def skolemise(f):
            if isinstance(f, FG):
                return f.b
            if isinstance(f, FAnd):
                return z3.And([skolemise(p) for p in f.parts] or [z3.BoolVal(True)])
            if isinstance(f, FImp):
                return z3.Implies(f.g, skolemise(f.body))
            if isinstance(f, FAll):
                body = z3.Implies(f.guard, skolemise(f.body))
                subs = []
                for v in f.vars:
                    skf = uf("sk.%s.%s" % (pr.name, v.decl().name()), *[x.sort() for x in pvars], v.sort())
                    subs.append((v, skf(*pvars)))
                return z3.substitute(body, *subs)
            raise Unsupported("formula in opaque predicate")
        g2 = skolemise(f)
        out.append(Schema("def.%s.intro" % pr.name, pvars, z3.Implies(g2, atom), triggers=[[atom]], origin="def"))
        self._def_schemas[key] = out
        return out

    def lemma_schemas(self):
        out = []
        for pr in self.reg.preds.values():
            if pr.opaque:
                out.extend(self.pred_def_schemas(pr))
        for sf in self.reg.specs.values():
            if not sf.inline:
                sc = self.def_schema(sf)
                if sc is not None:
                    out.append(sc)
        for name in self.usable_lemmas:
            out.extend(self.lemma_schema(name))
        if self.ih_schema is not None:
            out.extend(self.ih_schema)
        return out

    def lemma_env(self, lem, prefix):
        env, vars_ = {}, []
        for pn, pty in lem.params:
            if pty.kind == "obj":
                ot = self.reg.objtypes[pty.args[0]]
                fields = {}
                for f in ot.all_config(self.reg):
                    fty = ot.all_fields(self.reg)[f]
                    c = z3.Const("%s.%s.%s.%s" % (prefix, lem.name, pn, f), sort_of(fty))
                    vars_.append(c)
                    fields[f] = P(fty, c)
                env[pn] = Special("rec", fields=fields, cls=pty.args[0])
            else:
                c = z3.Const("%s.%s.%s" % (prefix, lem.name, pn), sort_of(pty))
                vars_.append(c)
                env[pn] = P(pty, c)
        return env, vars_

    def lemma_schema(self, name, prefix="L", extra_guard=None):
        key = (name, prefix)
        if key in self._lemma_schema_cache and extra_guard is None:
            return self._lemma_schema_cache[key]
        lem = self.reg.lemmas[name]
        env, vars_ = self.lemma_env(lem, prefix)
        saved_envs, self.spec_envs = self.spec_envs, []
        saved_pc = self.st.pc
        self.st.pc = []
        try:
            def build():
                req = [self.formula_to_ground(self.formula(r)) for r in lem.requires]
                if extra_guard is not None:
                    req.append(extra_guard(env))
                ens = [self.formula_to_ground(self.formula(e)) for e in lem.ensures]
                trig = None
                if lem.triggers is not None:
                    trig = [[self.term(self.ev(self.parse(t))) for t in multi] for multi in lem.triggers]
                return req, ens, trig
            req, ens, trig = self.spec_eval(build, env)
        finally:
            self.spec_envs = saved_envs
            self.st.pc = saved_pc
        body = z3.Implies(z3.And(req) if req else z3.BoolVal(True), z3.And(ens))
        sc = Schema(("lemma." if extra_guard is None else "IH.") + name, vars_, body, triggers=trig, origin="lemma")
        sc.rounds = lem.rounds
        if extra_guard is None:
            self._lemma_schema_cache[key] = [sc]
        return [sc]

    # ================================================================= calls into repo code
    def bind_args(self, fi, recv, args, kwargs, node):
        a = fi.node.args
        if a.vararg or a.kwonlyargs or a.posonlyargs:
            raise Unsupported("signature of %s" % fi.key)
        params = [p.arg for p in a.args]
        bound = {}
        pos = list(args)
        if recv is not None and params and params[0] in ("self", "cls"):
            if fi.is_classmethod:
                if isinstance(recv, Ref):
                    ot = self.reg.objtypes[self.st.heap[recv.rid].cls]
                    m, c = ot.pyclass.split(":")
                    recv = ClsV(m, c)
            bound[params[0]] = recv
            params = params[1:]
        if len(pos) > len(params):
            raise RaiseSig("TypeError")
        for p, v in zip(params, pos):
            bound[p] = v
        rest = params[len(pos):]
        extra_kw = {}
        for k, v in kwargs.items():
            if k in rest:
                bound[k] = v
            elif k in bound:
                raise RaiseSig("TypeError")
            else:
                extra_kw[k] = v
        defaults = a.defaults
        dparams = [p.arg for p in a.args][len(a.args) - len(defaults):]
        for p, d in zip(dparams, defaults):
            if p not in bound:
                saved_mod, saved_vars = self.module, self.st.vars
                self.module, self.st.vars = fi.module, {}
                try:
                    bound[p] = self.ev(d)
                finally:
                    self.module, self.st.vars = saved_mod, saved_vars
        for p in rest:
            if p not in bound:
                raise RaiseSig("TypeError")
        if a.kwarg:
            bound[a.kwarg.arg] = Special("kwargs", items=extra_kw)
        elif extra_kw:
            raise RaiseSig("TypeError")
        return bound

    def call_repo(self, fi, recv, args, kwargs, node):
        bound = self.bind_args(fi, recv, args, kwargs, node)
        # dynamic dispatch on receiver objtype already done by find_method
        con = self.reg.contracts.get(fi.key)
        if con is None:
            con = self.find_variant(fi, bound)
        if con is not None and not self.spec_mode:
            return self.call_by_contract(fi, con, bound, node)
        if self.spec_mode and con is not None and con.pure:
            return self.call_by_contract(fi, con, bound, node)
        if fi.key in self.inline_stack or len(self.inline_stack) > 6:
            raise Unsupported("recursive/deep call to %s without contract" % fi.key)
        return self.call_inline(fi, bound, node)

    def find_variant(self, fi, bound):
        """contracts registered as key@variant: pick the one whose declared object types fit the arguments"""
        for k, c in self.reg.contracts.items():
            if not k.startswith(fi.key + "@"):
                continue
            ok = True
            for p, ty in c.types.items():
                v = bound.get(p)
                if isinstance(v, OptV):
                    v = v.val
                if isinstance(ty, Ty) and ty.kind == "obj" and isinstance(v, Ref) and v.ty.kind == "obj":
                    if not self.is_subtype(self.st.heap[v.rid].cls, ty.args[0]):
                        ok = False
            if ok:
                return c
        return None

    def is_subtype(self, a, b):
        while a is not None:
            if a == b:
                return True
            a = self.reg.objtypes[a].base
        return False

    def call_inline(self, fi, bound, node):
        saved = (self.st.vars, self.module, self.cur_fi)
        self.st.vars = dict(bound)
        self.module = fi.module
        self.cur_fi = fi
        self.inline_stack.append(fi.key)
        self.notes.append("inlined %s" % fi.key)
        try:
            try:
                self.exec_block(fi.node.body)
                return NoneV()
            except ReturnSig as r:
                return r.value
        finally:
            self.inline_stack.pop()
            self.st.vars, self.module, self.cur_fi = saved

    def call_lambda(self, f, args, kwargs, node):
        a = f.node.args
        params = [p.arg for p in a.args]
        saved = (self.st.vars, self.module)
        v = dict(f.closure)
        isdef = isinstance(f.node, ast.FunctionDef)
        if isdef and getattr(f, "def_fi", None) is self.cur_fi and getattr(f, "def_depth", None) == len(self.inline_stack):
            v.update(self.st.vars)               # the defining activation is the current one: by-reference capture
        v.update(getattr(f, "defaults", {}))
        if len(args) > len(params) or kwargs:
            raise Unsupported("call of a local function with keyword or surplus arguments")
        v.update(zip(params, args))
        for p in params:
            if p not in v or (p not in getattr(f, "defaults", {}) and params.index(p) >= len(args)):
                raise RaiseSig("TypeError")
        self.st.vars = v
        self.module = f.module
        try:
            if isdef:
                try:
                    self.exec_block(f.node.body)
                    return NoneV()
                except ReturnSig as r:
                    return r.value
            return self.ev(f.node.body)
        finally:
            self.st.vars, self.module = saved

    def call_super(self, n):
        meth = n.func.attr
        fi = self.cur_fi
        if fi is None or fi.cls is None:
            raise Unsupported("super() outside method")
        ci = self.repo.classes["%s:%s" % (fi.module, fi.cls)]
        target = None
        for b in ci.bases:
            target = self.repo.find_method(fi.module, b, meth)
            if target:
                break
        if target is None:
            raise Unsupported("super().%s not found" % meth)
        args, kwargs = lib.eval_args(self, n)
        recv = self.st.vars.get("self")
        return self.call_repo(target, recv, args, kwargs, n)

    def construct(self, clsv, args, kwargs, node):
        key = "%s:%s" % (clsv.module, clsv.name)
        otn = self.reg.class_map.get(key)
        if otn is None:
            return self.reg.ext_call(self, "construct." + key, args, kwargs, node)
        ref = self.fresh_obj(otn, "new." + clsv.name)
        fi = self.repo.find_method(clsv.module, clsv.name, "__init__")
        if fi is None:
            return ref
        self.call_repo(fi, ref, args, kwargs, node)
        return ref

    def typed_bind(self, con, bound):
        """coerce actual arguments to declared parameter types"""
        out = {}
        for p, v in bound.items():
            ty = con.types.get(p)
            if isinstance(v, Special) and v.tag == "kwargs":
                kt = con.kwargs_types or (ty if isinstance(ty, dict) else {})
                items = {}
                for k, t in kt.items():
                    items[k] = self.coerce(v.items[k], t) if k in v.items else self.coerce(NoneV(), t) \
                        if t.kind == "opt" else (P(t, z3.Const("default<%s>" % k, sort_of(t))) if t.kind == "opq" else None)
                    if items[k] is None:
                        raise Unsupported("kwargs key %s missing at call" % k)
                for k in v.items:
                    if k not in kt:
                        raise Unsupported("kwargs key %s not declared" % k)
                out[p] = Special("kwargs", items=items)
                continue
            if ty is None:
                out[p] = v
            else:
                out[p] = self.coerce_arg(v, ty)
        return out

    # ---- bit-vector mode (functions declared `bitvector=W`): Python ints are W-bit vectors with
    # no-wrap side obligations, so the proof is about mathematical integers in [0, 2^W)
    def bv_term(self, v, w):
        if isinstance(v, P) and v.ty.kind == "bv":
            return v.term
        if isinstance(v, Conc) and isinstance(v.v, int) and not isinstance(v.v, bool):
            if not (0 <= v.v < 2 ** w):
                raise Unsupported("constant out of bit-vector range")
            return z3.BitVecVal(v.v, w)
        raise Unsupported("bit-vector operand %r" % (v,))

    def bv_binop(self, op, a, b, node):
        w = (a if lib.is_bv(a) else b).ty.args[0]
        x, y = self.bv_term(a, w), self.bv_term(b, w)
        ty = Ty("bv", w)
        if isinstance(op, ast.BitXor):
            return P(ty, x ^ y)
        if isinstance(op, ast.BitAnd):
            return P(ty, x & y)
        if isinstance(op, ast.BitOr):
            return P(ty, x | y)
        if isinstance(op, ast.RShift):
            return P(ty, z3.LShR(x, y))
        if isinstance(op, ast.Add):
            if not self.spec_mode:
                self.emit("%s#enc.bv.add-no-wrap" % self.cur_func, z3.BVAddNoOverflow(x, y, False),
                          meta={"kind": "encoding"})
            return P(ty, x + y)
        if isinstance(op, ast.Sub):
            if not self.spec_mode:
                self.emit("%s#enc.bv.sub-no-wrap" % self.cur_func, z3.BVSubNoUnderflow(x, y, False),
                          meta={"kind": "encoding"})
            return P(ty, x - y)
        if isinstance(op, ast.LShift):
            raise Unsupported("left shift in bit-vector mode (would need a no-overflow obligation)")
        raise Unsupported("bit-vector op %s" % type(op).__name__)

    def equal(self, a, b):
        if (isinstance(a, Ref) and a.ty.kind == "list") or (isinstance(b, Ref) and b.ty.kind == "list"):
            sa, sb = lib.seq_of(self, a), lib.seq_of(self, b)
            if sa is not None and sb is not None:
                return sa.term == sb.term
        if lib.is_bv(a) or lib.is_bv(b):
            w = (a if lib.is_bv(a) else b).ty.args[0]
            return self.bv_term(a, w) == self.bv_term(b, w)
        return super().equal(a, b)

    def coerce_arg(self, v, ty):
        if ty.kind == "bv" and not self.bv_mode:
            return self.coerce(v, INT)   # contract clauses are re-read over mathematical ints at call sites
        if isinstance(v, Fun) and ty.kind == "opq":
            # function value passed where an opaque callable is expected
            name = v.fi.key if hasattr(v, "fi") else getattr(v, "name", "fn")
            return P(ty, z3.Const("fn<%s>" % name, sort_of(ty)))
        return self.coerce(v, ty)

    def call_by_contract(self, fi, con, bound, node):
        saved_module = self.module
        self.module = fi.module          # contract clauses are read in the callee's module
        try:
            return self._call_by_contract(fi, con, bound, node)
        finally:
            self.module = saved_module

    def _call_by_contract(self, fi, con, bound, node):
        callee = con.short
        env = self.typed_bind(con, bound)
        if con.record:
            self.st.calls.append((con.key, dict(env)))
            rec_index = len(self.st.calls) - 1
        else:
            rec_index = None
        name = "%s#call[%s]" % (self.cur_func, callee)
        # preconditions
        def pre():
            for i, r in enumerate(con.requires):
                self.prove("%s.pre.%d" % (name, i), self.formula(r), meta={"kind": "call-pre"})
            if con.decreases is not None and self.cur_con is not None and self.cur_con.key == con.key:
                m_new = self.term(self.ev(self.parse(con.decreases)), INT)
                self.emit("%s.decreases" % name, z3.And(m_new >= 0, m_new < self.entry_measure),
                          meta={"kind": "termination"})
        self.spec_eval(pre, env)
        # exceptional outcomes
        for exc, cond in con.raises.items():
            if cond is None:
                c = z3.Bool(self.fresh_name("raises." + exc))
            else:
                c = self.spec_eval(lambda: self.truth(self.ev(self.parse(cond))), env)
            if self.decide(c):
                raise RaiseSig(exc)
        old_heap = dict(self.st.heap)
        # havoc
        for loc in con.modifies:
            self.havoc_loc(loc, env)
        res = self.fresh(con.returns, "ret." + callee) if con.returns is not None else NoneV()
        if con.pure and con.returns is not None and is_prim(con.returns):
            # a pure function's result is a function of its arguments and the declared `reads`
            flat = []
            ok = True
            for pn in [p.arg for p in fi.node.args.args]:
                v = env.get(pn)
                if isinstance(v, P):
                    flat.append(v.term)
                elif isinstance(v, OptV) and isinstance(v.val, P):
                    flat.extend([v.some, z3.If(v.some, v.val.term, self.term(self.default(v.val.ty)))])
                elif isinstance(v, (Ref, ClsV)):
                    continue
                else:
                    ok = False
            for r in con.reads:
                rv = self.spec_eval(lambda: self.ev(self.parse(r)), env)
                c = cell(self, rv)
                if isinstance(c, P):
                    flat.append(c.term)
                else:
                    ok = False
            if ok:
                f = uf("pure_" + callee, *[t.sort() for t in flat], sort_of(con.returns))
                res = P(con.returns, f(*flat))
        elif con.pure and con.returns is not None and con.returns.kind == "tup" and all(is_prim(t) for t in con.returns.args):
            flat = [v.term for pn in [p.arg for p in fi.node.args.args] for v in [env.get(pn)] if isinstance(v, P)]
            if len(flat) == len(fi.node.args.args):
                res = TupV([P(t, uf("pure_%s.%d" % (callee, i), *[x.sort() for x in flat], sort_of(t))(*flat))
                            for i, t in enumerate(con.returns.args)])
        env2 = dict(env)
        env2["result"] = res
        saved_old = self.old_heap
        self.old_heap = old_heap
        try:
            def post():
                for i, e in enumerate(con.ensures):
                    self.assume(self.formula(e), "post.%s.%d" % (callee, i))
                for i, e in enumerate(con.trusted_ensures):
                    self.used_assumptions.add("trusted clause on %s: %s" % (callee, e))
                    self.assume(self.formula(e), "tpost.%s.%d" % (callee, i))
            self.spec_eval(post, env2)
            if con.trusted:
                self.used_assumptions.add("trusted contract (not verified): %s" % con.key)
            if rec_index is not None:
                self.st.calls[rec_index][1]["result"] = res
        finally:
            self.old_heap = saved_old
        return res

    def havoc_loc(self, loc, env):
        """loc: expression string like 'self.cache' or 'lookup' or 'log'/'out' pseudo-locations"""
        if loc in ("log",):
            self.st.log.append(("havoc", self.fresh_name("log")))
            return
        node = self.parse(loc)
        v = self.spec_eval(lambda: self.ev(node), env)
        if isinstance(v, Ref) and v.ty.kind in ("map", "bimap"):
            old = self.st.heap[v.rid]
            if isinstance(old, BimapV):
                new = BimapV(self.fresh_map_val(old.fwd, loc + ".fwd"), self.fresh_map_val(old.inv, loc + ".inv"))
                self.assume_bimap_consistent(new)
            else:
                new = self.fresh_map_val(old, loc)
            self.st.heap[v.rid] = new
            return
        if isinstance(v, Ref) and v.ty.kind == "obj":
            ot = self.reg.objtypes[self.st.heap[v.rid].cls]
            obj = self.st.heap[v.rid].copy()
            for fname, fty in ot.all_fields(self.reg).items():
                fv = obj.fields[fname]
                if isinstance(fv, Ref):
                    self.havoc_ref(fv, loc + "." + fname)
                else:
                    obj.fields[fname] = self.fresh(fty, "hv." + fname)
            self.st.heap[v.rid] = obj
            return
        if isinstance(node, ast.Attribute):
            base = self.spec_eval(lambda: self.ev(node.value), env)
            if isinstance(base, Ref) and base.ty.kind == "obj":
                ot = self.reg.objtypes[self.st.heap[base.rid].cls]
                fty = ot.all_fields(self.reg)[node.attr]
                self.set_field(base, node.attr, self.fresh(fty, "hv." + node.attr))
                return
        if isinstance(v, Ref) and v.ty.kind == "list":
            self.st.heap[v.rid] = P(SeqT(STR), z3.Const(self.fresh_name("hv.list"), sort_of(SeqT(STR))))
            return
        raise Unsupported("havoc of %s" % loc)

    def havoc_ref(self, ref, hint):
        old = self.st.heap[ref.rid]
        if isinstance(old, BimapV):
            new = BimapV(self.fresh_map_val(old.fwd, hint + ".fwd"), self.fresh_map_val(old.inv, hint + ".inv"))
            self.assume_bimap_consistent(new)
            self.st.heap[ref.rid] = new
        elif isinstance(old, MapV):
            self.st.heap[ref.rid] = self.fresh_map_val(old, hint)
        elif isinstance(old, P):
            self.st.heap[ref.rid] = P(old.ty, z3.Const(self.fresh_name("hv." + hint), sort_of(old.ty)))
        else:
            raise Unsupported("havoc of cell %r" % (old,))

    def fresh_map_val(self, old, hint):
        ks = sort_of(old.kt)
        dom = z3.Const(self.fresh_name("hv." + hint + ".dom"), z3.ArraySort(ks, z3.BoolSort()))
        val = z3.Const(self.fresh_name("hv." + hint + ".val"), z3.ArraySort(ks, sort_of(old.vt)))
        size = z3.Int(self.fresh_name("hv." + hint + ".size"))
        self.st.pc.append(size >= 0)
        return MapV(old.kt, old.vt, dom, val, size)

    def ite(self, c, a, b):
        if isinstance(a, Ref) and isinstance(b, Ref) and a.ty.kind == "list" and b.ty.kind == "list" and a.rid != b.rid:
            sa, sb = lib.seq_of(self, a), lib.seq_of(self, b)
            if sa is not None and sb is not None:
                return lib.alloc(self, Ty("list", sa.ty.args[0]), P(sa.ty, z3.If(c, sa.term, sb.term)), "cell.ite")
        return super().ite(c, a, b)

    def coerce(self, v, ty):
        if isinstance(v, Conc) and isinstance(v.v, dict) and ty.kind in ("map", "bimap"):
            v = Special("dict_lit", pairs=[(Conc(a), Conc(b)) for a, b in v.v.items()])
        if isinstance(v, Special) and v.tag == "dict_lit" and ty.kind in ("map", "bimap"):
            kt, vt = ty.args
            ks, vs = sort_of(kt), sort_of(vt)
            def build(pairs, kt, vt):
                dom = z3.K(sort_of(kt), z3.BoolVal(False))
                val = z3.K(sort_of(kt), self.term(self.default(vt), vt))
                for a, b in pairs:
                    dom = z3.Store(dom, self.term(a, kt), True)
                    val = z3.Store(val, self.term(a, kt), self.term(b, vt))
                return MapV(kt, vt, dom, val, zint(len(pairs)))
            if ty.kind == "map":
                return lib.alloc(self, ty, build(v.pairs, kt, vt), "cell.dict")
            keys = [a for a, _ in v.pairs]
            return lib.alloc(self, ty, BimapV(build(v.pairs, kt, vt), build([(b, a) for a, b in v.pairs], vt, kt)),
                             "cell.bidict")
        if ty.kind == "set" and isinstance(v, Ref) and v.ty.kind == "setcell":
            return self.st.heap[v.rid]
        if ty.kind == "set" and isinstance(v, Conc) and isinstance(v.v, (set, frozenset, list, tuple)):
            from contracts.externals import _set_term
            if isinstance(v.v, (set, frozenset)) and len(v.v) > 50:
                return _set_term(self, v)
            arr = z3.K(sort_of(ty.args[0]), z3.BoolVal(False))
            for x in v.v:
                arr = z3.Store(arr, self.term(Conc(x), ty.args[0]), True)
            return P(ty, arr)
        if ty.kind == "setcell":
            return v
        if ty.kind == "list":
            if isinstance(v, OptV):
                v = v.val
            if isinstance(v, Ref) and v.ty.kind == "list":
                c = self.st.heap[v.rid]
                if isinstance(c, P):
                    return v
            sq = lib.seq_of(self, v)
            if sq is None:
                sq = P(SeqT(ty.args[0]), z3.Empty(sort_of(SeqT(ty.args[0]))))
            return lib.alloc(self, ty, sq, "cell.list")
        return super().coerce(v, ty)

    # maps are boxed in heap cells
    def fresh(self, ty, hint="v"):
        if ty.kind == "map":
            m = self.fresh_map(ty.args[0], ty.args[1], hint)
            return lib.alloc(self, ty, m, "cell." + hint)
        if ty.kind == "bimap":
            bm = BimapV(self.fresh_map(ty.args[0], ty.args[1], hint + ".fwd"),
                        self.fresh_map(ty.args[1], ty.args[0], hint + ".inv"))
            self.assume_bimap_consistent(bm)
            return lib.alloc(self, ty, bm, "cell." + hint)
        if ty.kind == "list":
            et = ty.args[0]
            return lib.alloc(self, ty, P(SeqT(et), z3.Const(self.fresh_name(hint), sort_of(SeqT(et)))), "cell." + hint)
        if ty.kind == "setcell":
            st_ = SetT(ty.args[0])
            return lib.alloc(self, ty, P(st_, z3.Const(self.fresh_name(hint), sort_of(st_))), "cell." + hint)
        return super().fresh(ty, hint)

    def decide(self, cond):
        con = self.cur_con
        if con is not None and con.prune and not self.spec_mode:
            c = z3.simplify(cond)
            if not z3.is_true(c) and not z3.is_false(c):
                for val, probe in ((False, c), (True, z3.Not(c))):
                    s = z3.Solver()
                    s.set("timeout", 300)
                    s.add(*self.st.pc)
                    s.add(probe)
                    if str(s.check()) == "unsat":
                        # the branch `probe` is infeasible: no fork, record the fact
                        self.st.pc.append(z3.Not(probe) if val is False else c)
                        return val
        return super().decide(cond)

    def hint_terms(self):
        con = self.cur_con
        if con is None or not con.hint_terms or getattr(self, "_in_hint", False):
            return []
        self._in_hint = True
        try:
            out = []
            for h in con.hint_terms:
                try:
                    out.append(self.spec_eval(lambda: self.term(self.ev(self.parse(h))), self.entry_env))
                except Unsupported:
                    pass
            return out
        finally:
            self._in_hint = False

    def hint_lemma_instances(self, name):
        con = self.cur_con
        if con is None or not con.use_lemmas or getattr(self, "_in_hint", False):
            return []
        hs = [h for k, v in con.use_lemmas.items() if k in name for h in v]
        if not hs:
            return []
        self._in_hint = True
        try:
            out = []
            for h in hs:
                node = self.parse(h)
                try:
                    args = self.spec_eval(lambda: [self.ev(a) for a in node.args], self.entry_env)
                    out.append(self.lemma_instance(node.func.id, args))
                except Unsupported:
                    pass
            return out
        finally:
            self._in_hint = False

    def lemma_instance(self, name, args):
        lem = self.reg.lemmas[name]
        sc = self.lemma_schema(name)[0]
        flat = []
        for (pn, pty), a in zip(lem.params, args):
            flat.extend(self.flatten_arg(pty, a))
        return z3.substitute(sc.body, *list(zip(sc.vars, flat)))

    # ================================================================= loops
    def loop_contract(self, s):
        con = self.cur_con_for_loops()
        if con is None:
            return None
        ordinal = self.loop_ordinal(s)
        return con.loops.get(ordinal)

    def cur_con_for_loops(self):
        if self.inline_stack:
            return self.reg.contracts.get("loops:" + self.inline_stack[-1])
        return self.cur_con

    def loop_ordinal(self, s):
        fi = self.cur_fi
        loops = [n for n in ast.walk(fi.node) if isinstance(n, (ast.For, ast.While))]
        loops.sort(key=lambda n: (n.lineno, n.col_offset))
        for i, n in enumerate(loops):
            if n is s:
                return i
        raise Unsupported("loop not found")

    MUTATORS = ("add", "append", "extend", "insert", "update", "pop", "remove", "clear", "sort", "discard", "setdefault")

    def mutated_cells(self, stmts):
        """local names whose heap cell is changed through a mutating method call or item assignment in stmts"""
        out = set()
        for st in stmts:
            for n in ast.walk(st):
                if isinstance(n, ast.Call) and isinstance(n.func, ast.Attribute) and isinstance(n.func.value, ast.Name) \
                        and n.func.attr in self.MUTATORS:
                    out.add(n.func.value.id)
                if isinstance(n, (ast.Assign, ast.AugAssign)):
                    for t in (n.targets if isinstance(n, ast.Assign) else [n.target]):
                        if isinstance(t, ast.Subscript) and isinstance(t.value, ast.Name):
                            out.add(t.value.id)
        return out

    def havoc_local_cells(self, names, cell_types=None):
        cell_types = cell_types or {}
        for v in sorted(names):
            val = self.st.vars.get(v)
            if isinstance(val, OptV):
                val = val.val
            if not isinstance(val, Ref) or val.ty.kind == "obj":
                continue
            old = self.st.heap[val.rid]
            if isinstance(old, Special) and old.tag in ("emptyset", "anyset"):
                if v in cell_types:
                    st_ = SetT(cell_types[v])
                    self.st.heap[val.rid] = P(st_, z3.Const(self.fresh_name("hv." + v), sort_of(st_)))
                else:
                    self.st.heap[val.rid] = Special("anyset")
            elif isinstance(old, P) and old.ty.kind == "set":
                self.st.heap[val.rid] = P(old.ty, z3.Const(self.fresh_name("hv." + v), sort_of(old.ty)))
            elif isinstance(old, (P, MapV, BimapV)):
                self.havoc_ref(val, v)
            elif isinstance(old, lib.ListV):
                if v in cell_types:
                    st_ = SeqT(cell_types[v])
                    self.st.heap[val.rid] = P(st_, z3.Const(self.fresh_name("hv." + v), sort_of(st_)))
                else:
                    raise Unsupported("list %s with concrete spine is mutated inside a loop cut by an invariant" % v)

    def assigned_names(self, stmts):
        names = set()
        for st in stmts:
            for n in ast.walk(st):
                if isinstance(n, (ast.Assign, ast.AugAssign, ast.AnnAssign)):
                    targets = n.targets if isinstance(n, ast.Assign) else [n.target]
                    for t in targets:
                        for x in ast.walk(t):
                            if isinstance(x, ast.Name) and isinstance(x.ctx, ast.Store):
                                names.add(x.id)
                elif isinstance(n, ast.For):
                    for x in ast.walk(n.target):
                        if isinstance(x, ast.Name):
                            names.add(x.id)
        return names

    def iter_model(self, it, s):
        """Model the iterable as (length term, element-at(k) function returning Val)."""
        if isinstance(it, OptV):
            it = it.val
        c = cell(self, it)
        if isinstance(c, ListV):
            c = lib.seq_of(self, it)
            if c is None:
                return zint(0), (lambda k: NoneV())
        if isinstance(c, Special) and c.tag == "range":
            lo, hi = self.term(c.lo, INT), self.term(c.hi, INT)
            n = z3.If(hi - lo < 0, zint(0), hi - lo)
            return n, (lambda k: P(INT, lo + k))
        if isinstance(c, Conc) and isinstance(c.v, str):
            c = P(STR, zstr(c.v))
        if isinstance(c, P) and c.ty == STR:
            return z3.Length(c.term), (lambda k: P(STR, z3.SubString(c.term, k, zint(1))))
        if isinstance(c, P) and c.ty == BITS:
            return z3.Length(c.term), (lambda k: P(BITS, z3.SubSeq(c.term, k, zint(1))))
        if isinstance(c, P) and c.ty.kind == "seq":
            return z3.Length(c.term), (lambda k: P(c.ty.args[0], c.term[k]))
        if isinstance(c, Special) and c.tag == "enumerate":
            n, at = self.iter_model(c.it, s)
            return n, (lambda k: TupV([P(INT, k), at(k)]))
        if isinstance(it, Ref) and it.ty.kind == "obj" and self.st.heap[it.rid].cls == "InFile":
            # lazy iteration over a text file: any line may fail to decode when it is reached (E-os)
            lines = lib.seq_of(self, self.st.heap[it.rid].fields["lines"])

            def at_line(k, _l=lines):
                if self.may_catch("UnicodeDecodeError"):
                    if self.decide(z3.Bool(self.fresh_name("decode.fails"))):
                        raise RaiseSig("UnicodeDecodeError")
                return P(STR, _l.term[k])
            return z3.Length(lines.term), at_line
        if isinstance(c, P) and c.ty.kind == "set":
            class _M:
                pass
            m = _M()
            m.dom, m.kt, m.size = c.term, c.ty.args[0], None
            E = self.map_enum(m)
            return z3.Length(E), (lambda k: P(c.ty.args[0], E[k]))
        if isinstance(c, Special) and c.tag == "mapitems":
            E = self.map_enum(c.m)
            return z3.Length(E), (lambda k: TupV([P(c.m.kt, E[k]), P(c.m.vt, z3.Select(c.m.val, E[k]))]))
        if isinstance(c, Special) and c.tag == "genexp":
            g = c.node
            if len(g.generators) != 1:
                raise Unsupported("nested generator")
            gen = g.generators[0]
            saved = self.st.vars
            self.st.vars = dict(c.closure)
            self.st.vars.update({k: v for k, v in saved.items() if k not in c.closure})
            try:
                src = self.ev(gen.iter)
            finally:
                self.st.vars = saved
            n, at = self.iter_model(src, s)

            def elem(k, _gen=gen, _g=g, _at=at):
                # desugared filter: an element failing the `if` is skipped (continue)
                self.assign(_gen.target, _at(k))
                for cnd in _gen.ifs:
                    self.want_truth = True
                    try:
                        cv = self.truth(self.ev(cnd))
                    finally:
                        self.want_truth = False
                    if not self.decide(cv):
                        raise ContinueSig()
                return self.ev(_g.elt)
            return n, elem
        if isinstance(c, P) and c.ty.kind == "opq" and c.ty.args[0] in self.reg.iter_models:
            return self.reg.iter_models[c.ty.args[0]](self, c, s)
        if isinstance(c, Special) and c.tag in self.reg.iter_models:
            return self.reg.iter_models[c.tag](self, c, s)
        raise Unsupported("loop over %r" % (c,))

    def map_enum(self, m):
        """dict iteration order (assumed E-dict): a sequence enumerating each key exactly once."""
        key = ("enum", m.dom.get_id())
        cache = self.__dict__.setdefault("_enum_cache", {})
        if key in cache:
            return cache[key]
        self.used_assumptions.add("E-dict-iteration: items()/keys() enumerate each key of the dict exactly once")
        ks = sort_of(m.kt)
        E = z3.Const(self.fresh_name("enum"), z3.SeqSort(ks))
        idx = z3.Function(self.fresh_name("enum.idx"), ks, z3.IntSort())
        i = z3.Int(self.fresh_name("enum.i"))
        k = z3.Const(self.fresh_name("enum.k"), ks)
        self.st.schemas.append(Schema("enum.sound", [i], z3.Implies(
            z3.And(i >= 0, i < z3.Length(E)), z3.And(z3.Select(m.dom, E[i]), idx(E[i]) == i)), triggers=[[E[i]]]))
        self.st.schemas.append(Schema("enum.complete", [k], z3.Implies(
            z3.Select(m.dom, k), z3.And(idx(k) >= 0, idx(k) < z3.Length(E), E[idx(k)] == k))))
        if m.size is not None:
            self.st.pc.append(z3.Length(E) == m.size)
        self.last_enum = P(SeqT(m.kt), E)
        cache[key] = E
        self.enum_terms = getattr(self, "enum_terms", {})
        self.enum_terms[m.dom.get_id()] = E
        return E

    def exec_for_invariant(self, s, it, inv):
        tnames = sorted(x.id for x in ast.walk(s.target) if isinstance(x, ast.Name))
        if sorted(inv.targets) != tnames:
            raise ContractMismatch("loop targets %r do not match contract %r" % (tnames, inv.targets))
        self.last_enum = None
        n, at = self.iter_model(it, s)
        ordn = self.loop_ordinal(s)
        name = "%s#loop%d" % (self.cur_func, ordn)
        kname = inv.index
        # --- init
        def inv_formula(kterm):
            env = {kname: P(INT, kterm), "_n": P(INT, n)}
            env.update({"entry_" + k_: v_ for k_, v_ in getattr(self, "entry_env", {}).items()})
            if getattr(self, "last_enum", None) is not None:
                env["ENUM"] = self.last_enum
            return self.spec_eval(lambda: FAnd([self.formula(c) for c in inv.invariant],
                                               [str(i) for i in range(len(inv.invariant))]), env)
        for i_, e_ in enumerate(getattr(inv, "entry_ensures", ())):
            self.prove("%s.entry.%d" % (name, i_), self.spec_eval(lambda: self.formula(e_), {}), meta={"kind": "loop-init"})
        saved_calls, self.st.calls = self.st.calls, []
        self.prove(name + ".init", inv_formula(zint(0)), meta={"kind": "loop-init"})
        self.st.calls = saved_calls
        # --- havoc
        mods = self.assigned_names(s.body) | set(inv.modifies)
        self.havoc_local_cells(self.mutated_cells(s.body) - set(x.split(".")[0] for x in inv.heap_modifies),
                               inv.cell_types)
        pre_vars = dict(self.st.vars)
        for v in sorted(mods):
            if v in self.st.vars:
                old = self.st.vars[v]
                self.st.vars[v] = self.havoc_like(old, v)
            # variables first assigned inside the loop stay undefined until assigned
        for loc in inv.heap_modifies:
            self.havoc_loc(loc, {})
        k = z3.Int(self.fresh_name("loop%d.k" % ordn))
        # fork: either run one arbitrary iteration (then cut) or exit
        if self.decide(z3.BoolVal(True) if False else z3.Bool(self.fresh_name("loop%d.step" % ordn))):
            self.st.pc.append(z3.And(k >= 0, k < n))
            self.st.calls = []                # ghost call trace of this iteration only
            self.st.vars[kname] = P(INT, k)   # ghost local: loop index, visible to inner invariants
            self.assume(inv_formula(k), "inv")
            try:
                self.assign(s.target, at(k))
                self.exec_block(s.body)
            except ContinueSig:
                pass
            except BreakSig:
                # leaving by break: continue after the loop with current state
                return
            self.prove(name + ".step", inv_formula(k + 1), meta={"kind": "loop-step"})
            raise PathCut()
        else:
            self.st.calls = []
            self.assume(inv_formula(n), "inv.exit")
            # loop target keeps last value (if n > 0); leave it havoc'd/undefined
            return

    def resub_callable(self, pat, repl, text, node, pattern_val=None):
        """`pattern.sub(f, text)`: loop over an arbitrary number of matches, cut by an invariant."""
        con = self.cur_con_for_loops()
        subs = [n for n in ast.walk(self.cur_fi.node) if isinstance(n, ast.Call) and isinstance(n.func, ast.Attribute)
                and n.func.attr == "sub"]
        subs.sort(key=lambda n: (n.lineno, n.col_offset))
        ordn = [i for i, n in enumerate(subs) if n is node]
        key = "sub%d" % (ordn[0] if ordn else 0)
        inv = con.loops.get(key) if con is not None else None
        if inv is None:
            raise Unsupported("re.sub with a callable needs an invariant (%s)" % key)
        name = "%s#%s" % (self.cur_func, key)

        def inv_formula():
            return self.spec_eval(lambda: FAnd([self.formula(c) for c in inv.invariant],
                                               [str(i) for i in range(len(inv.invariant))]), {})
        self.prove(name + ".init", inv_formula(), meta={"kind": "loop-init"})
        for loc in inv.heap_modifies:
            self.havoc_loc(loc, {})
        if self.decide(z3.Bool(self.fresh_name(key + ".step"))):
            self.assume(inv_formula(), "inv")
            mt = z3.Const(self.fresh_name("match.text"), z3.StringSort())
            from contracts.externals import _pattern_lang
            lang = _pattern_lang(self, pat) if pat is not None else None
            if lang is not None:
                self.st.pc.append(z3.InRe(mt, lang))
            for e in getattr(inv, "match_assume", ()):
                self.used_assumptions.add("assumed about every match of the run-time pattern in %s: %s" % (self.cur_func, e))
                self.assume(self.spec_eval(lambda: self.formula(e), {"MATCH": P(STR, mt)}), "match")
            m = Special("match", text=mt, groups={})
            if inv.step_ensures:
                self.st.calls = []
            rv = lib.apply(self, repl, [m], {}, node)
            if inv.step_ensures:
                self.cur_match = m
                env_s = {"MATCH": P(STR, mt), "REPL": rv}
                for i_, e_ in enumerate(inv.step_ensures):
                    self.prove("%s.replacement.%d" % (name, i_),
                               self.spec_eval(lambda: self.formula(e_), env_s), meta={"kind": "loop-step"})
            self.prove(name + ".step", inv_formula(), meta={"kind": "loop-step"})
            raise PathCut()
        self.assume(inv_formula(), "inv.exit")
        return P(STR, z3.Const(self.fresh_name("resub"), z3.StringSort()))

    def havoc_like(self, old, hint):
        if isinstance(old, P):
            return self.fresh(old.ty, "hv." + hint)
        if isinstance(old, Conc):
            v = old.v
            if isinstance(v, bool):
                return self.fresh(BOOL, "hv." + hint)
            if isinstance(v, int):
                return self.fresh(INT, "hv." + hint)
            if isinstance(v, str):
                return self.fresh(STR, "hv." + hint)
        if isinstance(old, StrOfInt):
            return self.fresh(STR, "hv." + hint)
        if isinstance(old, OptV):
            return self.fresh(old.ty, "hv." + hint)
        if isinstance(old, TupV):
            return TupV([self.havoc_like(i, hint) for i in old.items])
        raise Unsupported("havoc of loop-modified variable %s = %r" % (hint, old))

    def exec_while_invariant(self, s, inv):
        ordn = self.loop_ordinal(s)
        name = "%s#loop%d" % (self.cur_func, ordn)

        def inv_formula():
            env = {"entry_" + k_: v_ for k_, v_ in getattr(self, "entry_env", {}).items()}
            return self.spec_eval(lambda: FAnd([self.formula(c) for c in inv.invariant],
                                               [str(i) for i in range(len(inv.invariant))]), env)
        self.prove(name + ".init", inv_formula(), meta={"kind": "loop-init"})
        mods = self.assigned_names(s.body) | set(inv.modifies)
        for v in sorted(mods):
            if v in self.st.vars:
                self.st.vars[v] = self.havoc_like(self.st.vars[v], v)
        for loc in inv.heap_modifies:
            self.havoc_loc(loc, {})
        _a = len(self.st.pc)
        self.assume(inv_formula(), "inv")
        self.inv_pc_range = (_a, len(self.st.pc))
        self.want_truth = True
        try:
            c = self.truth(self.ev(s.test))
        finally:
            self.want_truth = False
        if self.decide(c):
            m0 = None
            if inv.decreases:
                m0 = self.spec_eval(lambda: self.term(self.ev(self.parse(inv.decreases)), INT), {})
            saved_sw, self.stepwise = self.stepwise, (inv.stepwise or None)
            self.stepwise_facts = []
            self.stepwise_chain = {}
            self.stepwise_ctx = tuple(inv.stepwise_ctx)
            try:
                self.exec_block(s.body)
            except ContinueSig:
                pass
            except BreakSig:
                return
            finally:
                self.stepwise = saved_sw
            f = inv_formula()
            if self.stepwise_facts and isinstance(f, FAnd):
                # the chain of per-statement equalities is given only to the clauses that talk about the
                # conserved quantity (clause 0 by convention)
                for lab, part in zip(f.labels, f.parts):
                    self.prove(name + ".step." + lab, part, extra_hyps=self.stepwise_facts if lab in inv.stepwise_for else (),
                               meta={"kind": "loop-step"})
            else:
                self.prove(name + ".step", f, meta={"kind": "loop-step"})
            if m0 is not None:
                m1 = self.spec_eval(lambda: self.term(self.ev(self.parse(inv.decreases)), INT), {})
                self.emit(name + ".decreases", z3.And(m0 >= 0, m1 < m0), meta={"kind": "termination"})
            raise PathCut()
        return

    # ================================================================= verifying one function
    cur_con = None

    def verify_function(self, key, con=None, label=None):
        """Generate all VCs of function `key` against its contract.  Returns number of paths."""
        con = con or self.reg.contracts[key]
        fkey = key.split("@")[0]
        fi = self.repo.funcs.get(fkey)
        if fi is None:
            raise ContractMismatch("function %s not found in working tree" % fkey)
        params = [p.arg for p in fi.node.args.args] + ([fi.node.args.kwarg.arg] if fi.node.args.kwarg else [])
        declared = list(con.types.keys())
        if sorted(params) != sorted(declared):
            raise ContractMismatch("parameters of %s are %r, contract declares %r" % (fkey, params, declared))
        short = label or con.short

        def body():
            self.cur_func = short
            self.cur_con = con
            self.cur_fi = fi
            self.module = fi.module
            self.allowed_raises = set(con.raises.keys())
            self.bv_mode = bool(con.bitvector)
            env = {}
            for p in params:
                ty = con.types[p]
                if isinstance(ty, dict):
                    env[p] = Special("kwargs", items={k: self.fresh(t, "arg." + k) for k, t in ty.items()})
                elif isinstance(ty, Ty) and ty.kind == "cls":
                    env[p] = ClsV(*ty.args)
                elif isinstance(ty, Ty) and ty.kind == "oneof":
                    # parameter ranges over the rows of a constant table: complete case split
                    rows = self.repo.const(ty.args[0], ty.args[1])
                    j = self.choose(len(rows), "row")
                    self.unrolled.add("parameter %s of %s: case split over the %d rows of %s" % (
                        p, short, len(rows), ty.args[1]))
                    env[p] = Conc(rows[j])
                else:
                    env[p] = self.fresh(ty, "arg." + p)
            self.st.vars = dict(env)
            self.entry_env = dict(env)
            def pre():
                for i, r in enumerate(con.requires):
                    self.assume(self.formula(r), "pre.%d" % i)
                if con.decreases is not None:
                    self.entry_measure = self.term(self.ev(self.parse(con.decreases)), INT)
            self.spec_eval(pre, env)
            self.old_heap = dict(self.st.heap)
            self.entry_pc_len = len(self.st.pc)
            outcome = None
            try:
                self.exec_block(fi.node.body)
                outcome = ("return", NoneV())
            except ReturnSig as r:
                outcome = ("return", r.value)
            except RaiseSig as r:
                outcome = ("raise", r.exc)
            self.check_exit(con, env, outcome, short)

        return self.run_paths(body, con.max_paths)

    def check_exit(self, con, env, outcome, short):
        kind, val = outcome
        if kind == "raise":
            if val not in con.raises:
                # an explicit raise the contract does not allow on a feasible path
                self.emit("%s#raises.unexpected[%s]" % (short, val), z3.BoolVal(False), meta={"kind": "raises"})
                return
            cond = con.raises[val]
            if cond is not None:
                c = self.spec_eval(lambda: self.truth(self.ev(self.parse(cond))), env)
                self.emit("%s#raises.%s.only_when" % (short, val), c, meta={"kind": "raises"})
            self.cur_raised = val
            def rpost():
                for i, e in enumerate(con.raises_ensures):
                    self.prove("%s#raises.post.%d" % (short, i), self.formula(e), meta={"kind": "raises"})
            self.spec_eval(rpost, env)
            return
        # normal return
        for exc, cond in con.raises.items():
            if cond is not None:
                c = self.spec_eval(lambda: self.truth(self.ev(self.parse(cond))), env)
                self.emit("%s#raises.%s.when" % (short, exc), z3.Not(c), meta={"kind": "raises"})
        # ghost exit statements
        for loc, expr in con.ghost_exit.items():
            v = self.spec_eval(lambda: self.ev(self.parse(expr)), env)
            node = self.parse(loc)
            base = self.spec_eval(lambda: self.ev(node.value), env)
            self.set_field(base, node.attr, v)
        res = val
        if con.returns is not None:
            if isinstance(val, NoneV) and con.returns.kind not in ("none", "opt", "any"):
                # falling off the end returns None where a value is promised: the path must be infeasible
                self.emit("%s#post.returns_a_value" % short, z3.BoolVal(False), meta={"kind": "post"})
                return
            res = self.coerce(val, con.returns)
        env2 = dict(env)
        env2["result"] = res
        def post():
            for i, e in enumerate(con.ensures):
                self.prove("%s#post.%d" % (short, i), self.formula(e), meta={"kind": "post", "clause": e})
        self.spec_eval(post, env2)
        self.check_frame(con, env, short)
        self.check_determinism(con, res, short)

    def check_determinism(self, con, res, short):
        """C13: the result and the post-state must not depend on a nondeterministic source (random numbers,
        library-generated salts, set iteration order): syntactic occurrence check of the havoc'd symbols."""
        if not self.nondet:
            self.emit("%s#deterministic" % short, z3.BoolVal(True), meta={"kind": "determinism"})
            return
        terms = []

        def collect(v):
            if isinstance(v, P):
                terms.append(v.term)
            elif isinstance(v, StrOfInt):
                terms.append(v.term)
            elif isinstance(v, OptV):
                terms.append(v.some)
                collect(v.val)
            elif isinstance(v, TupV):
                for i in v.items:
                    collect(i)
            elif isinstance(v, MapV):
                terms.extend([v.dom, v.val])
            elif isinstance(v, BimapV):
                collect(v.fwd)
                collect(v.inv)
            elif isinstance(v, ObjV):
                for f in v.fields.values():
                    collect(f)
        collect(res)
        for cellv in self.st.heap.values():
            collect(cellv)
        seen = set()
        names = set()
        stack = list(terms)
        while stack:
            x = stack.pop()
            if x.get_id() in seen:
                continue
            seen.add(x.get_id())
            if z3.is_app(x):
                if x.num_args() == 0 and x.decl().kind() == z3.Z3_OP_UNINTERPRETED:
                    names.add(x.decl().name())
                stack.extend(x.children())
        # let-bound names: follow their definitions
        changed = True
        defs = {}
        for h in self.st.pc:
            if z3.is_eq(h) and z3.is_app(h.arg(0)) and h.arg(0).num_args() == 0:
                defs[h.arg(0).decl().name()] = h.arg(1)
        expanded = set()
        while changed:
            changed = False
            for n in list(names):
                if n in defs and n not in expanded:
                    expanded.add(n)
                    st2 = [defs[n]]
                    while st2:
                        x = st2.pop()
                        if z3.is_app(x):
                            if x.num_args() == 0 and x.decl().kind() == z3.Z3_OP_UNINTERPRETED:
                                if x.decl().name() not in names:
                                    names.add(x.decl().name())
                                    changed = True
                            st2.extend(x.children())
        bad = [src for src, sym in self.nondet if sym.decl().name() in names]
        allowed = z3.BoolVal(False)
        if con.nondet_ok:
            # nondeterminism is admitted only under this condition (e.g. no salt supplied)
            allowed = self.spec_eval(lambda: self.truth(self.ev(self.parse(con.nondet_ok))), self.entry_env)
        for src in sorted(set(bad)):
            self.emit("%s#deterministic[%s]" % (short, src), allowed, meta={"kind": "determinism"})
        if not bad:
            self.emit("%s#deterministic" % short, z3.BoolVal(True), meta={"kind": "determinism"})

    def check_frame(self, con, env, short):
        """Everything not listed in `modifies` must be unchanged (heap cells reachable at entry)."""
        allowed_cells = set()
        allowed_fields = set()
        whole_objs = set()
        for loc in con.modifies:
            if loc in ("log", "out"):
                continue
            node = self.parse(loc)
            saved = self.heap_override
            self.heap_override = self.old_heap
            try:
                v = self.spec_eval(lambda: self.ev(node), env)
            finally:
                self.heap_override = saved
            if isinstance(v, Ref) and v.ty.kind == "obj":
                whole_objs.add(v.rid)
                for fv in self.old_heap[v.rid].fields.values():
                    if isinstance(fv, Ref):
                        allowed_cells.add(fv.rid)
            elif isinstance(v, Ref):
                allowed_cells.add(v.rid)
            if isinstance(node, ast.Attribute):
                base = self.spec_eval(lambda: self.ev(node.value), env)
                if isinstance(base, Ref):
                    allowed_fields.add((base.rid, node.attr))
        for rid, old in self.old_heap.items():
            new = self.st.heap.get(rid)
            if new is old or rid in allowed_cells or rid in whole_objs:
                continue
            if isinstance(old, ObjV):
                for f, ov in old.fields.items():
                    nv = new.fields[f]
                    if nv is ov or (rid, f) in allowed_fields:
                        continue
                    if isinstance(ov, Ref) and isinstance(nv, Ref) and ov.rid == nv.rid:
                        continue
                    try:
                        eq = self.equal(ov, nv)
                    except Unsupported:
                        eq = z3.BoolVal(False)
                    self.emit("%s#frame.%s.%s" % (short, old.cls, f), eq, meta={"kind": "frame"})
            elif isinstance(old, MapV):
                self.emit("%s#frame.cell" % short, z3.And(old.dom == new.dom, old.val == new.val), meta={"kind": "frame"})
            elif isinstance(old, BimapV):
                self.emit("%s#frame.cell" % short, z3.And(old.fwd.dom == new.fwd.dom, old.fwd.val == new.fwd.val,
                                                            old.inv.dom == new.inv.dom, old.inv.val == new.inv.val),
                          meta={"kind": "frame"})
        if self.st.globals_written and not con.allow_global_writes:
            self.emit("%s#frame.no_global_writes" % short, z3.BoolVal(False), meta={"kind": "frame"})

    # ================================================================= lemmas
    def prove_lemma(self, name):
        lem = self.reg.lemmas[name]
        self.reset_path()
        self.entry_pc_len = None
        self.cur_func = "lemma." + name
        self.worklist = []
        env, vars_ = self.lemma_env(lem, "sk")
        def go():
            for i, r in enumerate(lem.requires):
                self.assume(self.formula(r), "req.%d" % i)
            self.entry_pc_len = len(self.st.pc)
            extra = []
            use_hyps = []
            pending_ih = []
            for h in lem.proof:
                h = h.strip()
                if h.startswith("inst "):
                    extra.append(self.term(self.ev(self.parse(h[5:]))))
                elif h.startswith("use "):
                    node = self.parse(h[4:])
                    args = [self.ev(a) for a in node.args]
                    ln = node.func.id
                    if ln == name:
                        pending_ih.append(args)
                    else:
                        if ln not in self.usable_lemmas:
                            raise Unsupported("lemma %s used before it is proved" % ln)
                        use_hyps.append(self.lemma_instance(ln, args))
                elif h.startswith("case "):
                    pass
            if lem.induct:
                m0 = self.term(self.ev(self.parse(lem.induct)), INT)
                def guard(env2):
                    self.spec_envs.append(env2)
                    try:
                        m1 = self.term(self.ev(self.parse(lem.induct)), INT)
                    finally:
                        self.spec_envs.pop()
                    return z3.And(m1 >= 0, m1 < m0)
                self.ih_schema = self.lemma_schema(name, prefix="IH", extra_guard=guard)
                for args in pending_ih:
                    sc = self.ih_schema[0]
                    flat = []
                    for (pn, pty), a in zip(lem.params, args):
                        flat.extend(self.flatten_arg(pty, a))
                    use_hyps.append(z3.substitute(sc.body, *list(zip(sc.vars, flat))))
                if lem.triggers == []:
                    self.ih_schema = None   # explicit IH instances only
            self.st.pc.extend(use_hyps)
            cases = [h[5:] for h in lem.proof if h.strip().startswith("case ")]
            try:
                for i, e in enumerate(lem.ensures):
                    f = self.formula(e)
                    if cases:
                        cs = [self.truth(self.ev(self.parse(c))) for c in cases]
                        for j, c in enumerate(cs):
                            self.prove("lemma.%s#ens.%d.case%d" % (name, i, j), f, extra_hyps=[c],
                                       meta={"kind": "lemma", "extra_terms": extra})
                        self.prove("lemma.%s#ens.%d.rest" % (name, i), f, extra_hyps=[z3.Not(z3.Or(cs))],
                                   meta={"kind": "lemma", "extra_terms": extra})
                    else:
                        self.prove("lemma.%s#ens.%d" % (name, i), f, meta={"kind": "lemma", "extra_terms": extra})
            finally:
                pass
        try:
            self.spec_eval(go, env)
            # materialise schemas now (IH is only valid for this lemma)
            for vc in self.vcs:
                if vc.name.startswith("lemma.%s#" % name) and not vc.meta.get("frozen"):
                    vc.meta["frozen"] = True
        finally:
            self.ih_schema = None

    # ================================================================= discharge
    def build_tasks(self, vcs=None, rounds=2):
        tasks = []
        for idx, vc in enumerate(vcs if vcs is not None else self.vcs):
            if vc.meta.get("trivial"):
                continue
            ground = list(vc.hyps) + [vc.goal]
            extra = list(vc.extra_terms) + list(vc.meta.get("extra_terms", []))
            t0 = time.time()
            insts = inst.instantiate(ground, vc.schemas, rounds=vc.meta.get("rounds", rounds), extra_terms=extra)
            text = smt.to_smt2(list(vc.hyps) + insts, z3.Not(vc.goal))
            tasks.append({"name": vc.name, "text": text, "idx": idx, "ninst": len(insts),
                          "gen_time": time.time() - t0, "z3_only": vc.meta.get("z3_only", False)})
        return tasks
