"""Contract registry (sidecar DSL) and spec-mode evaluation."""
import ast
import z3

from .sym import *  # noqa
from .engine import Unsupported, RaiseSig, zint, zstr, bits_lit
from . import lib
from .lib import uf, ListV


class ObjType:
    def __init__(self, name, pyclass=None, base=None, fields=None, ghost=None, config=None, ext_methods=None):
        self.name, self.pyclass, self.base = name, pyclass, base
        self.ext_methods = dict(ext_methods or {})
        self.fields = dict(fields or {})
        self.ghost = dict(ghost or {})
        self.config = list(config or [])

    def all_fields(self, reg):
        d = {}
        if self.base:
            d.update(reg.objtypes[self.base].all_fields(reg))
        d.update(self.fields)
        d.update(self.ghost)
        return d

    def all_config(self, reg):
        c = []
        if self.base:
            c.extend(reg.objtypes[self.base].all_config(reg))
        c.extend(self.config)
        return c


class Contract:
    def __init__(self, key, types=None, returns=None, requires=(), ensures=(), modifies=(), raises=None,
                 decreases=None, ghost_exit=None, bitvector=None, pure=False, variants=None, notes="",
                 kwargs_types=None, havoc_result=True, max_paths=400, loops=None, allow_global_writes=(),
                 hint_terms=(), use_lemmas=(), reads=(), trusted=False, trusted_ensures=(), prune=False,
                 record=False, raises_ensures=(), nondet_ok=None):
        self.key = key
        self.types = dict(types or {})
        self.returns = returns
        self.requires = list(requires)
        self.ensures = list(ensures)
        self.modifies = list(modifies)
        self.raises = dict(raises or {})  # exc -> condition expr (iff) or None (may)
        self.decreases = decreases
        self.ghost_exit = dict(ghost_exit or {})
        self.bitvector = bitvector
        self.pure = pure
        self.notes = notes
        self.kwargs_types = kwargs_types
        self.max_paths = max_paths
        self.loops = loops or {}
        self.allow_global_writes = allow_global_writes
        self.hint_terms = list(hint_terms)
        self.reads = list(reads)
        self.trusted = trusted
        self.trusted_ensures = list(trusted_ensures)
        self.prune = prune
        self.record = record
        self.nondet_ok = nondet_ok
        self.raises_ensures = list(raises_ensures)
        self.use_lemmas = use_lemmas if isinstance(use_lemmas, dict) else {"": list(use_lemmas)}

    @property
    def short(self):
        return self.key.split(":")[1] if ":" in self.key else self.key


class LoopContract:
    def __init__(self, targets, invariant, modifies=(), decreases=None, index="_i", seq=None, heap_modifies=(),
                 stepwise=(), match_assume=(), cell_types=None, stepwise_for=("0",), stepwise_ctx=(), step_ensures=(), entry_ensures=()):
        self.targets = targets          # loop target names (fingerprint)
        self.invariant = list(invariant)  # clauses over locals + index var
        self.modifies = list(modifies)  # local names havoc'd (in addition to syntactically assigned)
        self.heap_modifies = list(heap_modifies)
        self.decreases = decreases
        self.index = index
        self.stepwise = list(stepwise)
        self.stepwise_for = list(stepwise_for)
        self.stepwise_ctx = list(stepwise_ctx)
        self.match_assume = list(match_assume)
        # re.sub loops: clauses proved at the end of every iteration over MATCH (the matched text), REPL (what the
        # callable returned for it) and the ghost call trace of that iteration
        self.step_ensures = list(step_ensures)
        # clauses proved where the loop is entered, over the locals and the ghost call trace since the function (or the
        # previous loop) began - not part of the invariant
        self.entry_ensures = list(entry_ensures)
        self.cell_types = dict(cell_types or {})


class SpecFn:
    def __init__(self, name, params, ret, body, rec=False, inline=True, triggers=None):
        self.name, self.params, self.ret, self.body = name, params, ret, body
        self.rec = rec
        self.inline = inline and not rec
        self.node = ast.parse(body, mode="eval").body if isinstance(body, str) else None


class Pred:
    def __init__(self, name, params, clauses, opaque=False):
        self.name, self.params = name, params
        self.opaque = opaque
        self.clauses = [(lab, ast.parse(e, mode="eval").body) for lab, e in clauses]


class Lemma:
    def __init__(self, name, params, requires, ensures, proof=(), induct=None, triggers=None, use_in_code=True,
                 rounds=2):
        self.name, self.params = name, params
        self.requires, self.ensures = list(requires), list(ensures)
        self.proof, self.induct, self.triggers = list(proof), induct, triggers
        self.use_in_code = use_in_code
        self.rounds = rounds


class Registry:
    def __init__(self):
        self.objtypes = {}
        self.contracts = {}
        self.specs = {}
        self.preds = {}
        self.lemmas = {}
        self.ext = {}
        self.opaque_callables = {}
        self.axioms = []   # functions engine -> list[Schema], always available (assumed library facts)
        self.type_names = {"Bits": BITS, "Int": INT, "Str": STR}
        self.proved_lemmas = []   # names of lemmas usable as schemas
        self.class_map = {}       # pyclass key -> objtype name
        self.iter_models = {}
        self.spec_consts = {}

    # ---- declaration API (used by /verif/contracts/*.py)
    def objtype(self, name, **kw):
        ot = ObjType(name, **kw)
        self.objtypes[name] = ot
        if ot.pyclass:
            self.class_map[ot.pyclass] = name
        return ot

    def contract(self, key, **kw):
        c = Contract(key, **kw)
        self.contracts[key] = c
        return c

    def specfn(self, name, params, ret, body, **kw):
        self.specs[name] = SpecFn(name, params, ret, body, **kw)

    def pred(self, name, params, clauses, opaque=False):
        self.preds[name] = Pred(name, params, clauses, opaque)

    def lemma(self, name, params, requires, ensures, **kw):
        self.lemmas[name] = Lemma(name, params, requires, ensures, **kw)

    def external(self, name):
        def deco(f):
            self.ext[name] = f
            return f
        return deco

    def axiom(self, f):
        self.axioms.append(f)
        return f

    # ---- engine callbacks
    def global_schemas(self, eng):
        out = []
        for f in self.axioms:
            out.extend(f(eng))
        out.extend(eng.lemma_schemas())
        for v in getattr(eng, "table_schemas", {}).values():
            out.extend(v)
        return out

    def spec_name(self, eng, name):
        if name in self.specs or name in self.preds:
            return Fun("spec", name=name)
        if name in self.type_names:
            return Special("typedom", dom=self.type_names[name])
        if name in SPEC_BUILTINS:
            return Fun("special", handler=SPEC_BUILTINS[name])
        if name in self.spec_consts:
            return Conc(self.spec_consts[name])
        return None

    def ext_call(self, eng, name, args, kwargs, node):
        h = self.ext.get(name)
        if h is None:
            raise Unsupported("external call %s" % name)
        return h(eng, args, kwargs, node)

    def opaque_call(self, eng, f, args, kwargs, node):
        oc = self.opaque_callables.get(f.ty.args[0])
        if oc is None:
            raise Unsupported("call of opaque %r" % (f.ty,))
        return oc(eng, f, args, kwargs, node)

    def opaque_attr(self, eng, base, attr, node):
        h = self.ext.get("attr.%s.%s" % (base.ty.args[0], attr))
        if h is not None:
            return h(eng, [base], {}, node)
        return Fun("strmeth", recv=base, name=attr)

    def opaque_method(self, eng, recv, name, args, kw, node):
        h = self.ext.get("meth.%s.%s" % (recv.ty.args[0], name))
        if h is None:
            raise Unsupported("method %s on opaque %s" % (name, recv.ty.args[0]))
        return h(eng, [recv] + list(args), kw, node)

    def special_attr(self, eng, base, attr, node):
        if base.tag == "rec":
            if attr in base.fields:
                return base.fields[attr]
            raise Unsupported("record has no field %s" % attr)
        h = self.ext.get("attr.%s.%s" % (base.tag, attr))
        if h is not None:
            return h(eng, [base], {}, node)
        return Fun("special", handler=lambda e, a, k, n, _b=base, _attr=attr: self.special_method(e, _b, _attr, a, k, n))

    def special_method(self, eng, base, name, args, kw, node):
        h = self.ext.get("meth.%s.%s" % (base.tag, name))
        if h is None:
            raise Unsupported("method %s on %s" % (name, base.tag))
        return h(eng, [base] + list(args), kw, node)

    def special_index(self, eng, c, idx, node):
        if c.tag == "kwargs" and isinstance(idx, Conc):
            if idx.v in c.items:
                return c.items[idx.v]
            raise RaiseSig("KeyError")
        h = self.ext.get("index.%s" % c.tag)
        if h is None:
            raise Unsupported("index into %s" % c.tag)
        return h(eng, [c, idx], {}, node)

    def str_join(self, eng, sep, it, node):
        h = self.ext.get("str.join")
        if h is None:
            raise Unsupported("str.join")
        return h(eng, [sep, it], {}, node)

    def str_ws_method(self, eng, recv, name, args, kw, node):
        h = self.ext.get("str." + name)
        if h is None:
            raise Unsupported("str.%s" % name)
        return h(eng, [recv] + list(args), kw, node)

    def cell_method(self, eng, recv, c, name, args, kw, node):
        h = self.ext.get("cell." + name)
        if h is None:
            raise Unsupported("method %s on %r" % (name, c))
        return h(eng, [recv] + list(args), kw, node)

    def list_extend(self, eng, ref, c, other):
        raise Unsupported("extend on symbolic list")

    list_extend_hook = None

    def make_set(self, eng, items):
        h = self.ext.get("make_set")
        if h is None:
            raise Unsupported("set construction")
        return h(eng, [items], {}, None)

    def make_dict(self, eng, pairs):
        h = self.ext.get("make_dict")
        if h is None:
            raise Unsupported("dict construction")
        return h(eng, [pairs], {}, None)

    def symbolic_comprehension(self, eng, n, kind, it):
        h = self.ext.get("comprehension")
        if h is None:
            raise Unsupported("comprehension over symbolic iterable")
        return h(eng, [n, kind, it], {}, n)

    def global_mutation(self, eng, recv, name, args, node):
        """a module-level / class-level container is modified: frame violation (state shared between anonymizers)"""
        from .engine import PathCut
        eng.st.globals_written.append((name, ast.unparse(node)[:80]))
        eng.emit("%s#frame.no_global_writes[%s]" % (eng.cur_func, ast.unparse(node)[:50]), z3.BoolVal(False),
                 meta={"kind": "frame"})
        raise PathCut()

    # ---- spec function calls
    def call_spec(self, eng, name, args, node):
        if name in self.preds:
            # predicate used as ground boolean: conjunction of ground clauses only
            f = eng.pred_formula(name, args)
            return P(BOOL, eng.formula_to_ground(f))
        sf = self.specs[name]
        if sf.inline:
            env = {p: a for (p, _), a in zip(sf.params, args)}
            eng.spec_envs.append(env)
            try:
                v = eng.ev(sf.node)
            finally:
                eng.spec_envs.pop()
            return eng.coerce(v, sf.ret) if sf.ret is not None else v
        return eng.uf_spec_apply(sf, args)


# ---- spec-only builtins ----------------------------------------------------
def _sp_implies(eng, args, kw, n):
    a, b = args
    return P(BOOL, z3.Implies(eng.truth(a), eng.truth(b)))


def _sp_iff(eng, args, kw, n):
    a, b = args
    return P(BOOL, eng.truth(a) == eng.truth(b))


def _sp_dom(eng, args, kw, n):
    """dom(m): the key set of a map as a set value"""
    c = lib.cell(eng, args[0])
    if isinstance(c, BimapV):
        c = c.fwd
    if isinstance(c, MapV):
        return P(SetT(c.kt), c.dom)
    raise Unsupported("dom of %r" % (c,))


def _sp_bit(eng, args, kw, n):
    """bit(e): the one-character bit string of int e in {0,1}"""
    t = eng.term(args[0], INT)
    return P(BITS, z3.Unit(t == 1))


def _sp_pow2(eng, args, kw, n):
    return P(INT, lib.pow2(eng.term(args[0], INT)))


def _sp_B(eng, args, kw, n):
    return P(BITS, lib.Bfun(eng.term(args[0], INT), eng.term(args[1], INT)))


def _sp_V(eng, args, kw, n):
    return P(INT, lib.Vfun(eng.term(args[0], BITS)))


def _sp_binfmt(eng, args, kw, n):
    return P(Opq("Fmt"), uf("binfmt", lib.I, sort_of(Opq("Fmt")))(eng.term(args[0], INT)))


def _sp_sibling(eng, args, kw, n):
    """sibling(k): k with its last bit flipped (k non-empty)"""
    k = eng.term(args[0], BITS)
    ln = z3.Length(k)
    return P(BITS, z3.Concat(z3.SubSeq(k, zint(0), ln - 1), z3.Unit(z3.Not(k[ln - 1]))))


def _sp_size(eng, args, kw, n):
    a0 = args[0].val if isinstance(args[0], OptV) else args[0]
    c = lib.cell(eng, a0)
    if isinstance(c, BimapV):
        c = c.fwd
    return P(INT, c.size)


def _sp_inv(eng, args, kw, n):
    """inv(b): the inverse map of a bidict, as a (read-only) map"""
    c = lib.cell(eng, args[0])
    return c.inv


def _sp_setadd(eng, args, kw, n):
    s = eng.term(args[0]) if isinstance(args[0], P) else None
    return P(args[0].ty, z3.Store(s, eng.term(args[1], args[0].ty.args[0]), True))


def _sp_uf_pred(name, *sorts):
    def h(eng, args, kw, n):
        ts = []
        for a, srt in zip(args, sorts):
            ts.append(eng.term(a, srt))
        f = uf(name, *[sort_of(s) for s in sorts], z3.BoolSort())
        return P(BOOL, f(*ts))
    return h


def _sp_uf_fun(name, ret, *sorts):
    def h(eng, args, kw, n):
        ts = [eng.term(a, srt) for a, srt in zip(args, sorts)]
        f = uf(name, *[sort_of(s) for s in sorts], sort_of(ret))
        return P(ret, f(*ts))
    return h


def _sp_cat(eng, args, kw, n):
    """cat(a, b): concatenation of two lists/sequences as a sequence value (None counts as empty)"""
    parts = []
    ty = None
    for a in args:
        if isinstance(a, NoneV) or (isinstance(a, Conc) and a.v is None):
            continue
        if isinstance(a, Conc) and isinstance(a.v, (list, tuple)):
            a = lib.make_list(eng, [Conc(x) for x in a.v])
        if isinstance(a, TupV):
            a = lib.make_list(eng, list(a.items))
        sq = lib.seq_of(eng, a)
        if sq is None:
            continue
        ty = sq.ty
        parts.append(sq.term)
    if not parts:
        raise Unsupported("cat of empty lists")
    return P(ty, parts[0] if len(parts) == 1 else z3.Concat(*parts))


def _sp_unit_if(eng, args, kw, n):
    """unit_if(c, x): [x] if c else []  (as a sequence value)"""
    c = eng.truth(args[0])
    x = args[1]
    if isinstance(x, Conc):
        x = P(eng.conc_type(x), eng.term(x))
    if isinstance(x, StrOfInt):
        x = P(STR, eng.term(x, STR))
    st = SeqT(x.ty)
    return P(st, z3.If(c, z3.Unit(x.term), z3.Empty(sort_of(st))))


def _sp_seq(eng, args, kw, n):
    sq = lib.seq_of(eng, args[0])
    if sq is None:
        raise Unsupported("seq() of %r" % (args[0],))
    return sq


def _sp_has(eng, args, kw, n):
    """has(s, x): x occurs in sequence s"""
    sq = lib.seq_of(eng, args[0])
    return P(BOOL, z3.Contains(sq.term, z3.Unit(eng.term(args[1], sq.ty.args[0]))))


def _sp_called(eng, args, kw, n):
    name = args[0].v
    return Conc(any(k.endswith(name) for k, _ in eng.st.calls))


def _sp_callarg(eng, args, kw, n):
    name, param = args[0].v, args[1].v
    hits = [b for k, b in eng.st.calls if k.endswith(name)]
    if len(hits) == 0:
        # no call on this path: an unconstrained value (any claim about it can only hold vacuously)
        for k, c in eng.reg.contracts.items():
            if k.endswith(name) and param in c.types:
                return eng.fresh(c.types[param], "nocall." + param)
    if len(hits) != 1:
        raise Unsupported("callarg: %d recorded calls of %s" % (len(hits), name))
    return hits[0][param]


def _sp_ncalls(eng, args, kw, n):
    name = args[0].v
    return Conc(sum(1 for k, _ in eng.st.calls if k.endswith(name)))


def _sp_raised(eng, args, kw, n):
    """raised('X'): in an exceptional postcondition, the class of the escaping exception is X"""
    return Conc(getattr(eng, "cur_raised", None) == args[0].v)


SPEC_BUILTINS = {"raised": _sp_raised, "called": _sp_called, "callarg": _sp_callarg, "ncalls": _sp_ncalls, "cat": _sp_cat, "unit_if": _sp_unit_if, "seq": _sp_seq, "has": _sp_has, "implies": _sp_implies, "iff": _sp_iff, "dom": _sp_dom, "bit": _sp_bit, "pow2": _sp_pow2,
                 "B": _sp_B, "V": _sp_V, "binfmt": _sp_binfmt, "sibling": _sp_sibling, "size": _sp_size,
                 "inv": _sp_inv, "setadd": _sp_setadd}


def spec_builtin(name):
    def deco(f):
        SPEC_BUILTINS[name] = f
        return f
    return deco
