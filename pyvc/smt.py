"""SMT back ends: z3 (Python API) + cvc5 (CLI) portfolio over SMT-LIB text.

Every verification condition is shipped to a worker process as SMT-LIB 2 text
(so the same text can be shown as a sample in the evidence and fed to both
solvers).  Verdicts:
  'unsat'   proved (by z3 or cvc5)
  'sat'     refuted at VC level (model attached when z3 produced it)
  'unknown' neither solver decided within its budget
"""
import os
import re
import subprocess
import tempfile
import time
import multiprocessing as mp

import z3

CVC5 = "/usr/bin/cvc5"

# budgets (seconds); sized ~10x the measured baseline so that verdicts do not flip under load
Z3_T1 = float(os.environ.get("PYVC_Z3_T1", "20"))
CVC5_T = float(os.environ.get("PYVC_CVC5_T", "60"))
Z3_T2 = float(os.environ.get("PYVC_Z3_T2", "60"))


def to_smt2(hyps, goal_neg, logic=None):
    """SMT-LIB text of  hyps /\\ goal_neg  (goal_neg is the negated goal)."""
    s = z3.Solver()
    for h in hyps:
        s.add(h)
    s.add(goal_neg)
    return s.to_smt2()


_NTH = re.compile(r"\bseq\.nth_[iu]\b")


def sanitize_for_cvc5(text):
    text = _NTH.sub("seq.nth", text)
    # z3 prints (declare-fun x () T); fine for cvc5.  Drop z3-only set-info lines.
    lines = [l for l in text.splitlines() if not l.startswith("(set-info")]
    body = "\n".join(lines)
    # z3 prints unicode escapes as \u{..} which cvc5 understands.
    return "(set-logic ALL)\n" + body + "\n"


def run_cvc5(text, timeout, want_model=False):
    with tempfile.NamedTemporaryFile("w", suffix=".smt2", delete=False) as f:
        f.write(sanitize_for_cvc5(text))
        path = f.name
    try:
        args = [CVC5, "--strings-exp", "--tlimit=%d" % int(timeout * 1000), path]
        t0 = time.time()
        try:
            out = subprocess.run(args, capture_output=True, text=True, timeout=timeout + 5)
            res = out.stdout.strip().splitlines()
            verdict = res[0].strip() if res else "unknown"
            if verdict not in ("sat", "unsat"):
                verdict = "unknown"
            err = out.stderr.strip()[:300]
        except subprocess.TimeoutExpired:
            verdict, err = "unknown", "timeout"
        return verdict, time.time() - t0, err
    finally:
        try:
            os.unlink(path)
        except OSError:
            pass


def run_z3(text, timeout, seed=0):
    ctx = z3.Context()
    s = z3.Solver(ctx=ctx)
    s.set("timeout", int(timeout * 1000))
    if seed:
        s.set("random_seed", seed)
    t0 = time.time()
    try:
        s.from_string(text)
        r = s.check()
    except z3.Z3Exception as e:  # pragma: no cover
        return "unknown", time.time() - t0, None, "z3 exception: %s" % e
    verdict = str(r)
    model = None
    reason = ""
    if verdict == "sat":
        try:
            m = s.model()
            model = {}
            for d in m.decls():
                if d.arity() == 0:
                    model[d.name()] = str(m[d])
        except z3.Z3Exception:
            model = None
    elif verdict == "unknown":
        reason = s.reason_unknown()
    return verdict, time.time() - t0, model, reason


def solve_text(task):
    """task = dict(name, text, regex=bool).  Returns dict with verdict/backend/time/model."""
    text = task["text"]
    out = {"name": task["name"], "sub": task.get("sub", 0)}
    total = 0.0
    trail = []
    v, t, model, reason = run_z3(text, task.get("z3_t1", Z3_T1))
    total += t
    trail.append(("z3", v, round(t, 3)))
    backend = "z3"
    if v == "unknown" and not task.get("z3_only"):
        v2, t2, err = run_cvc5(text, task.get("cvc5_t", CVC5_T))
        total += t2
        trail.append(("cvc5", v2, round(t2, 3)))
        if v2 in ("sat", "unsat"):
            v, backend = v2, "cvc5"
            if v2 == "sat":
                # ask z3 again (longer) only to obtain a model; verdict stays with cvc5
                v3, t3, model, _ = run_z3(text, Z3_T2, seed=7)
                total += t3
                trail.append(("z3-model", v3, round(t3, 3)))
                if v3 == "unsat":
                    out.update(verdict="disagree", backend="z3/cvc5", time=total, model=None, trail=trail)
                    return out
        else:
            v3, t3, model, reason = run_z3(text, task.get("z3_t2", Z3_T2), seed=11)
            total += t3
            trail.append(("z3#2", v3, round(t3, 3)))
            v, backend = v3, "z3"
    elif v == "unknown":
        v3, t3, model, reason = run_z3(text, task.get("z3_t2", Z3_T2), seed=11)
        total += t3
        trail.append(("z3#2", v3, round(t3, 3)))
        v = v3
    out.update(verdict=v, backend=backend, time=total, model=model, trail=trail, reason=reason)
    return out


_VCS = None
_ROUNDS = 2


def _solve_vc(idx):
    """Worker (forked after VC generation, so the z3 terms are inherited): instantiate, print, solve."""
    from . import inst
    vc = _VCS[idx]
    t0 = time.time()
    ground = list(vc.hyps) + [vc.goal]
    extra = list(vc.extra_terms) + list(vc.meta.get("extra_terms", []))
    insts = inst.instantiate(ground, vc.schemas, rounds=vc.meta.get("rounds", _ROUNDS), extra_terms=extra)
    text = to_smt2(list(vc.hyps) + insts, z3.Not(vc.goal))
    gen = time.time() - t0
    task = {"name": vc.name, "text": text, "z3_only": vc.meta.get("z3_only", False)}
    for k in ("z3_t1", "cvc5_t", "z3_t2"):
        if k in vc.meta:
            task[k] = vc.meta[k]
    r = solve_text(task)
    r.update(idx=idx, ninst=len(insts), gen_time=gen, size=len(text))
    if vc.meta.get("keep_text") or r["verdict"] != "unsat":
        r["text"] = text
    return r


def solve_vcs(vcs, rounds=2, jobs=None):
    """Discharge VCs in a fork pool created now (children inherit the z3 terms)."""
    global _VCS, _ROUNDS
    todo = [i for i, vc in enumerate(vcs) if not vc.meta.get("trivial")]
    results = [None] * len(vcs)
    for i, vc in enumerate(vcs):
        if vc.meta.get("trivial"):
            results[i] = {"name": vc.name, "verdict": "unsat", "backend": "trivial", "time": 0.0, "idx": i,
                          "ninst": 0, "gen_time": 0.0, "model": None, "trail": []}
    if not todo:
        return results
    _VCS, _ROUNDS = vcs, rounds
    n = jobs or int(os.environ.get("PYVC_JOBS", "16"))
    if os.environ.get("PYVC_SERIAL"):
        out = [_solve_vc(i) for i in todo]
    else:
        with mp.get_context("fork").Pool(min(n, len(todo))) as p:
            out = p.map(_solve_vc, todo, chunksize=1)
    for r in out:
        results[r["idx"]] = r
    return results


_POOL = None


def pool():
    global _POOL
    if _POOL is None:
        n = int(os.environ.get("PYVC_JOBS", "16"))
        _POOL = mp.get_context("fork").Pool(n)
    return _POOL


def solve_all(tasks):
    """Solve tasks (list of dict) in parallel; returns list of result dicts in task order."""
    if not tasks:
        return []
    if os.environ.get("PYVC_SERIAL"):
        return [solve_text(t) for t in tasks]
    return pool().map(solve_text, tasks, chunksize=1)
