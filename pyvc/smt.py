"""SMT back ends: z3 (Python API) + cvc5 (CLI) portfolio over SMT-LIB text.

Every verification condition is shipped to a worker process as SMT-LIB 2 text
(so the same text can be shown as a sample in the evidence and fed to both
solvers).  Verdicts:
  'unsat'   proved (by z3 or cvc5)
  'sat'     refuted at VC level (model attached when z3 produced it)
  'unknown' neither solver decided within its budget
"""
import os
import re
import subprocess
import tempfile
import time
import multiprocessing as mp
import threading

import z3

CVC5 = "/usr/bin/cvc5"

# budgets (seconds); sized ~10x the measured baseline so that verdicts do not flip under load
Z3_T1 = float(os.environ.get("PYVC_Z3_T1", "20"))
CVC5_T = float(os.environ.get("PYVC_CVC5_T", "60"))
Z3_T2 = float(os.environ.get("PYVC_Z3_T2", "60"))


def to_smt2(hyps, goal_neg, logic=None):
    """SMT-LIB text of  hyps /\\ goal_neg  (goal_neg is the negated goal)."""
    s = z3.Solver()
    for h in hyps:
        s.add(h)
    s.add(goal_neg)
    return s.to_smt2()


_NTH = re.compile(r"\bseq\.nth_[iu]\b")


def sanitize_for_cvc5(text):
    text = _NTH.sub("seq.nth", text)
    # z3 prints (declare-fun x () T); fine for cvc5.  Drop z3-only set-info lines.
    lines = [l for l in text.splitlines() if not l.startswith("(set-info")]
    body = "\n".join(lines)
    # z3 prints unicode escapes as \u{..} which cvc5 understands.
    return "(set-logic ALL)\n" + body + "\n"


def run_cvc5(text, timeout, want_model=False):
    with tempfile.NamedTemporaryFile("w", suffix=".smt2", delete=False) as f:
        f.write(sanitize_for_cvc5(text))
        path = f.name
    try:
        args = [CVC5, "--strings-exp", "--tlimit=%d" % int(timeout * 1000), path]
        t0 = time.time()
        try:
            out = subprocess.run(args, capture_output=True, text=True, timeout=timeout + 5)
            res = out.stdout.strip().splitlines()
            verdict = res[0].strip() if res else "unknown"
            if verdict not in ("sat", "unsat"):
                verdict = "unknown"
            err = out.stderr.strip()[:300]
        except subprocess.TimeoutExpired:
            verdict, err = "unknown", "timeout"
        return verdict, time.time() - t0, err
    finally:
        try:
            os.unlink(path)
        except OSError:
            pass


def run_z3(text, timeout, seed=0):
    ctx = z3.Context()
    s = z3.Solver(ctx=ctx)
    s.set("timeout", int(timeout * 1000))
    if seed:
        s.set("random_seed", seed)
    t0 = time.time()
    try:
        s.from_string(text)
        r = s.check()
    except z3.Z3Exception as e:  # pragma: no cover
        return "unknown", time.time() - t0, None, "z3 exception: %s" % e
    verdict = str(r)
    model = None
    reason = ""
    if verdict == "sat":
        try:
            m = s.model()
            model = {}
            for d in m.decls():
                if d.arity() == 0:
                    model[d.name()] = str(m[d])
        except z3.Z3Exception:
            model = None
    elif verdict == "unknown":
        reason = s.reason_unknown()
    return verdict, time.time() - t0, model, reason


class _Z3Thread(threading.Thread):
    def __init__(self, text, timeout, seed):
        super().__init__(daemon=True)
        self.text, self.timeout, self.seed = text, timeout, seed
        self.ctx = z3.Context()
        self.result = None

    def run(self):
        s = z3.Solver(ctx=self.ctx)
        s.set("timeout", int(self.timeout * 1000))
        if self.seed:
            s.set("random_seed", self.seed)
        t0 = time.time()
        try:
            s.from_string(self.text)
            r = str(s.check())
            model, reason = None, ""
            if r == "sat":
                try:
                    m = s.model()
                    model = {d.name(): str(m[d]) for d in m.decls() if d.arity() == 0}
                except z3.Z3Exception:
                    model = None
            elif r == "unknown":
                reason = s.reason_unknown()
            self.result = (r, time.time() - t0, model, reason)
        except z3.Z3Exception as e:
            self.result = ("unknown", time.time() - t0, None, "z3 exception: %s" % e)


def solve_text(task):
    """task = dict(name, text).  z3 quickly first; then z3 (thread) and cvc5 (process) race."""
    text = task["text"]
    out = {"name": task["name"], "sub": task.get("sub", 0)}
    trail = []
    t_start = time.time()
    quick = min(2.0, task.get("z3_t1", Z3_T1))
    v, t, model, reason = run_z3(text, quick)
    trail.append(("z3", v, round(t, 3)))
    backend = "z3"
    if v == "unknown":
        proc = None
        path = None
        ct = task.get("cvc5_t", CVC5_T)
        zt = task.get("z3_t2", Z3_T2)
        if not task.get("z3_only"):
            f = tempfile.NamedTemporaryFile("w", suffix=".smt2", delete=False)
            f.write(sanitize_for_cvc5(text))
            f.close()
            path = f.name
            proc = subprocess.Popen([CVC5, "--strings-exp", "--tlimit=%d" % int(ct * 1000), path],
                                    stdout=subprocess.PIPE, stderr=subprocess.PIPE, text=True)
        th = _Z3Thread(text, zt, 3)
        th.start()
        t1 = time.time()
        v2 = None
        try:
            while True:
                if th.result is not None and th.result[0] in ("sat", "unsat"):
                    v, _, model, reason = th.result
                    backend = "z3"
                    trail.append(("z3#2", v, round(time.time() - t1, 3)))
                    break
                if proc is not None and v2 is None and proc.poll() is not None:
                    so = proc.stdout.read()
                    res = so.strip().splitlines()
                    v2 = res[0].strip() if res else "unknown"
                    if v2 not in ("sat", "unsat"):
                        v2 = "unknown"
                    trail.append(("cvc5", v2, round(time.time() - t1, 3)))
                    if v2 == "unsat":
                        v, backend = "unsat", "cvc5"
                        break
                    if v2 == "sat":
                        # keep z3 running a little for a model / cross-check
                        th.join(timeout=min(10.0, zt))
                        if th.result is not None and th.result[0] == "unsat":
                            out.update(verdict="disagree", backend="z3/cvc5", time=time.time() - t_start,
                                       model=None, trail=trail)
                            return out
                        v, backend = "sat", "cvc5"
                        model = th.result[2] if th.result is not None else None
                        break
                z3_done = th.result is not None
                cvc5_done = proc is None or v2 is not None
                if z3_done and cvc5_done:
                    v, reason = "unknown", (th.result[3] if th.result else "")
                    trail.append(("z3#2", "unknown", round(time.time() - t1, 3)))
                    break
                if time.time() - t1 > max(ct, zt) + 10:
                    v = "unknown"
                    break
                time.sleep(0.05)
        finally:
            if th.is_alive():
                try:
                    th.ctx.interrupt()
                except Exception:
                    pass
                th.join(timeout=5)
            if proc is not None and proc.poll() is None:
                proc.kill()
            if proc is not None:
                try:
                    proc.communicate(timeout=2)
                except Exception:
                    pass
            if path:
                try:
                    os.unlink(path)
                except OSError:
                    pass
    out.update(verdict=v, backend=backend, time=time.time() - t_start, model=model, trail=trail, reason=reason)
    return out


_VCS = None
_ROUNDS = 2


def _solve_vc(idx):
    """Worker (forked after VC generation, so the z3 terms are inherited): instantiate, print, solve."""
    from . import inst
    vc = _VCS[idx]
    t0 = time.time()
    ground = list(vc.hyps) + [vc.goal]
    if "goal_terms" in vc.meta:
        ground.append(vc.meta["goal_terms"] == vc.meta["goal_terms"])
    extra = list(vc.extra_terms) + list(vc.meta.get("extra_terms", []))
    insts = inst.instantiate(ground, vc.schemas, rounds=vc.meta.get("rounds", _ROUNDS), extra_terms=extra)
    text = to_smt2(list(vc.hyps) + insts, z3.Not(vc.goal))
    gen = time.time() - t0
    task = {"name": vc.name, "text": text, "z3_only": vc.meta.get("z3_only", False)}
    for k in ("z3_t1", "cvc5_t", "z3_t2"):
        if k in vc.meta:
            task[k] = vc.meta[k]
    r = solve_text(task)
    r.update(idx=idx, ninst=len(insts), gen_time=gen, size=len(text))
    if vc.meta.get("keep_text") or r["verdict"] != "unsat":
        r["text"] = text
    return r


def solve_vcs(vcs, rounds=2, jobs=None):
    """Discharge VCs in a fork pool created now (children inherit the z3 terms)."""
    global _VCS, _ROUNDS
    todo = [i for i, vc in enumerate(vcs) if not vc.meta.get("trivial")]
    results = [None] * len(vcs)
    for i, vc in enumerate(vcs):
        if vc.meta.get("trivial"):
            results[i] = {"name": vc.name, "verdict": "unsat", "backend": "trivial", "time": 0.0, "idx": i,
                          "ninst": 0, "gen_time": 0.0, "model": None, "trail": []}
    if not todo:
        return results
    _VCS, _ROUNDS = vcs, rounds
    n = jobs or int(os.environ.get("PYVC_JOBS", "16"))
    if os.environ.get("PYVC_SERIAL"):
        out = [_solve_vc(i) for i in todo]
    else:
        with mp.get_context("fork").Pool(min(n, len(todo))) as p:
            out = p.map(_solve_vc, todo, chunksize=1)
    for r in out:
        results[r["idx"]] = r
    return results


_POOL = None


def pool():
    global _POOL
    if _POOL is None:
        n = int(os.environ.get("PYVC_JOBS", "16"))
        _POOL = mp.get_context("fork").Pool(n)
    return _POOL


def solve_all(tasks):
    """Solve tasks (list of dict) in parallel; returns list of result dicts in task order."""
    if not tasks:
        return []
    if os.environ.get("PYVC_SERIAL"):
        return [solve_text(t) for t in tasks]
    return pool().map(solve_text, tasks, chunksize=1)
