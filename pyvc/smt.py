"""SMT back ends: z3 (Python API) + cvc5 (CLI) portfolio.

Each VC is tried in two forms, both derived mechanically from the same hypotheses/schemas/goal:
  * Q  - schemas kept as universally quantified hypotheses; cvc5 (E-matching).  Only `unsat` is used
         from this form (a proof); `sat`/`unknown` are ignored.
  * QF - schemas instantiated by pyvc.inst (quantifier-free); z3 and cvc5.  `unsat` is a proof,
         `sat` is a refutation at VC level and comes with a z3 model (replayed on the real code).
Verdicts: 'unsat' proved / 'sat' refuted / 'unknown' undecided / 'disagree' (checker error).
"""
import os
import re
import subprocess
import tempfile
import threading
import time
import multiprocessing as mp

import z3

CVC5 = "/usr/bin/cvc5"

# budgets (seconds); sized ~10x the measured baseline so that verdicts do not flip under load
Q_FAST = float(os.environ.get("PYVC_Q_FAST", "4"))
Q_SLOW = float(os.environ.get("PYVC_Q_SLOW", "150"))
Z3_QUICK = float(os.environ.get("PYVC_Z3_QUICK", "2"))
Z3_T = float(os.environ.get("PYVC_Z3_T", "150"))
CVC5_T = float(os.environ.get("PYVC_CVC5_T", "150"))


def to_smt2(hyps, goal_neg):
    """SMT-LIB text of  hyps /\\ goal_neg  (goal_neg is the negated goal)."""
    s = z3.Solver()
    for h in hyps:
        s.add(h)
    s.add(goal_neg)
    return s.to_smt2()


_NTH = re.compile(r"\bseq\.nth_[iu]\b")


def sanitize_for_cvc5(text):
    text = _NTH.sub("seq.nth", text)
    lines = [l for l in text.splitlines() if not l.startswith("(set-info")]
    return "(set-logic ALL)\n" + "\n".join(lines) + "\n"


def quantified_text(vc):
    qs = []
    for sc in vc.schemas:
        if not sc.vars:
            qs.append(sc.body)
        else:
            qs.append(z3.ForAll(sc.vars, sc.body))
    return to_smt2(list(vc.hyps) + qs, z3.Not(vc.goal))


class Cvc5Job:
    def __init__(self, text, timeout, label):
        f = tempfile.NamedTemporaryFile("w", suffix=".smt2", delete=False)
        f.write(sanitize_for_cvc5(text))
        f.close()
        self.path, self.label, self.t0, self.timeout = f.name, label, time.time(), timeout
        self.proc = subprocess.Popen([CVC5, "--strings-exp", "--tlimit=%d" % int(timeout * 1000), self.path],
                                     stdout=subprocess.PIPE, stderr=subprocess.DEVNULL, text=True)
        self.verdict = None

    def poll(self):
        if self.verdict is not None:
            return self.verdict
        if self.proc.poll() is None:
            if time.time() - self.t0 > self.timeout + 5:
                self.proc.kill()
                self.verdict = "unknown"
            return self.verdict
        out = self.proc.stdout.read().strip().splitlines()
        v = out[0].strip() if out else "unknown"
        self.verdict = v if v in ("sat", "unsat") else "unknown"
        return self.verdict

    def wait(self):
        while self.poll() is None:
            time.sleep(0.02)
        return self.verdict

    def close(self):
        if self.proc.poll() is None:
            self.proc.kill()
        try:
            self.proc.communicate(timeout=2)
        except Exception:
            pass
        try:
            os.unlink(self.path)
        except OSError:
            pass


def run_cvc5(text, timeout):
    j = Cvc5Job(text, timeout, "cvc5")
    try:
        v = j.wait()
        return v, time.time() - j.t0, ""
    finally:
        j.close()


class Z3Thread(threading.Thread):
    def __init__(self, text, timeout, seed=0):
        super().__init__(daemon=True)
        self.text, self.timeout, self.seed = text, timeout, seed
        self.ctx = z3.Context()
        self.result = None
        self.t0 = time.time()

    def run(self):
        s = z3.Solver(ctx=self.ctx)
        s.set("timeout", int(self.timeout * 1000))
        if self.seed:
            s.set("random_seed", self.seed)
        try:
            s.from_string(self.text)
            r = str(s.check())
            model, reason = None, ""
            if r == "sat":
                try:
                    m = s.model()
                    model = {d.name(): str(m[d]) for d in m.decls() if d.arity() == 0}
                except z3.Z3Exception:
                    model = None
            elif r == "unknown":
                reason = s.reason_unknown()
            self.result = (r, time.time() - self.t0, model, reason)
        except z3.Z3Exception as e:
            self.result = ("unknown", time.time() - self.t0, None, "z3 exception: %s" % e)

    def stop(self):
        if self.is_alive():
            try:
                self.ctx.interrupt()
            except Exception:
                pass
            self.join(timeout=5)


def run_z3(text, timeout, seed=0):
    """z3 as a separate, killable process (z3's string/regex solver can ignore in-process timeouts)"""
    return run_z3_cli(text, max(1, timeout))


def parse_model(out):
    model = {}
    for m in re.finditer(r'\(define-fun (\S+) \(\) String\s+"((?:[^"]|"")*)"\)', out):
        model[m.group(1).strip("|")] = '"' + m.group(2) + '"'
    for m in re.finditer(r'\(define-fun (\S+) \(\) (Int|Bool)\s+(\(- \d+\)|-?\d+|true|false)\)', out):
        model[m.group(1).strip("|")] = m.group(3)
    return model


class Z3Proc:
    """z3 CLI in the background with the interface of Z3Thread (`result` tuple when finished); killable"""

    def __init__(self, text, timeout):
        f = tempfile.NamedTemporaryFile("w", suffix=".smt2", delete=False)
        f.write(text + "\n(get-model)\n" if "(check-sat)" in text else text + "\n(check-sat)\n(get-model)\n")
        f.close()
        self.path, self.timeout, self.t0 = f.name, timeout, time.time()
        self.proc = None
        self._result = None

    def start(self):
        self.proc = subprocess.Popen(["z3-new", "-smt2", "-T:%d" % int(self.timeout), self.path],
                                     stdout=subprocess.PIPE, stderr=subprocess.DEVNULL, text=True)

    @property
    def result(self):
        if self._result is not None:
            return self._result
        if self.proc.poll() is None:
            if time.time() - self.t0 > self.timeout + 5:
                self.proc.kill()
                self._result = ("unknown", time.time() - self.t0, None, "killed at the deadline")
            return self._result
        out = self.proc.stdout.read()
        first = out.strip().splitlines()[0].strip() if out.strip() else "unknown"
        model = parse_model(out) if first == "sat" else None
        if first not in ("sat", "unsat"):
            first = "unknown"
        self._result = (first, time.time() - self.t0, model, "")
        return self._result

    def join(self, timeout=None):
        t1 = time.time()
        while self.result is None and (timeout is None or time.time() - t1 < timeout):
            time.sleep(0.05)

    def stop(self):
        if self.proc is not None and self.proc.poll() is None:
            self.proc.kill()
        try:
            os.unlink(self.path)
        except OSError:
            pass


def run_z3_cli(text, timeout):
    """z3 as a separate process (the regex solver can ignore in-process timeouts): killed at the deadline."""
    f = tempfile.NamedTemporaryFile("w", suffix=".smt2", delete=False)
    f.write(text + "\n(get-model)\n" if "(check-sat)" in text else text + "\n(check-sat)\n(get-model)\n")
    f.close()
    t0 = time.time()
    try:
        try:
            p = subprocess.run(["z3-new", "-smt2", "-T:%d" % int(timeout), f.name], capture_output=True, text=True,
                               timeout=timeout + 5)
            out = p.stdout
        except subprocess.TimeoutExpired:
            return ("unknown", time.time() - t0, None, "z3 process killed at the deadline")
        first = out.strip().splitlines()[0].strip() if out.strip() else "unknown"
        if first not in ("sat", "unsat"):
            return ("unknown", time.time() - t0, None, out[:200])
        model = None
        if first == "sat":
            model = parse_model(out)
        return (first, time.time() - t0, model, "")
    finally:
        try:
            os.unlink(f.name)
        except OSError:
            pass


def solve_text(task):
    """QF text only (used for regex obligations): z3 quick, then z3 || cvc5."""
    return _race(task["name"], None, task["text"], z3_only=task.get("z3_only", False), budgets=task)


CONFIRM_T = 20


def _race(name, qtext, qf_builder, z3_only=False, budgets=None):
    """portfolio (see _race0) + second opinion: a proof found by z3 alone on a quantifier-free text is handed to cvc5
    as well.  cvc5 `unsat` = confirmed; cvc5 `sat` = disagreement (checker error, exit 3); cvc5 undecided within its
    budget = the proof rests on z3 alone and is counted as such in the evidence (backend `z3-only`)."""
    out = _race0(name, qtext, qf_builder, z3_only=z3_only, budgets=budgets)
    if out.get("verdict") == "unsat" and out.get("backend") == "z3" and out.get("text") and not z3_only:
        j = Cvc5Job(out["text"], (budgets or {}).get("confirm_t", CONFIRM_T), "cvc5")
        try:
            v = j.wait()
        finally:
            j.close()
        out.setdefault("trail", []).append(("cvc5-confirm", v, round(time.time() - j.t0, 3)))
        if v == "unsat":
            out["backend"] = "z3+cvc5"
        elif v == "sat":
            out.update(verdict="disagree", backend="z3/cvc5")
        else:
            out["backend"] = "z3-only"
    return out


def _race0(name, qtext, qf_builder, z3_only=False, budgets=None):
    budgets = budgets or {}
    out = {"name": name}
    trail = []
    t_start = time.time()
    jobs = []
    model, reason = None, ""
    qf_text = None
    ninst = 0
    gen = 0.0
    try:
        # ---- stage A: quantified form, cvc5, short budget
        jq = None
        if qtext is not None and not z3_only:
            jq = Cvc5Job(qtext, budgets.get("q_fast", Q_FAST), "cvc5-q")
            jobs.append(jq)
            v = jq.wait()
            trail.append(("cvc5-q", v, round(time.time() - jq.t0, 3)))
            if v == "unsat":
                out.update(verdict="unsat", backend="cvc5-q", time=time.time() - t_start, model=None, trail=trail,
                           ninst=0, gen_time=0.0, text=None)
                return out
            jq.close()
            # (z3 is NOT given the quantified form: z3 4.8.12 and 5.1.0 both answer `unsat` on a satisfiable set of
            #  quantified hypotheses over Seq String - see DESIGN.md A.9 and tests/z3_unsound_quantified_seq.smt2)
            jq = Cvc5Job(qtext, budgets.get("q_slow", Q_SLOW), "cvc5-q")
            jobs.append(jq)
        # ---- stage B: quantifier-free form
        if callable(qf_builder):
            # weakening is sound for proofs: first try with only the hypotheses in the goal's cone of influence
            t0 = time.time()
            qf_text, ninst = qf_builder("sliced")
            gen = time.time() - t0
            r = run_z3(qf_text, budgets.get("z3_sliced", 5.0))
            trail.append(("z3-sliced", r[0], round(r[1], 3)))
            if r[0] == "unsat":
                out.update(verdict="unsat", backend="z3", time=time.time() - t_start, model=None, trail=trail,
                           ninst=ninst, gen_time=gen, text=qf_text)
                return out
            t0 = time.time()
            qf_text, ninst = qf_builder(True)
            gen = time.time() - t0
            r = run_z3(qf_text, budgets.get("z3_quick", Z3_QUICK))
            trail.append(("z3-rel", r[0], round(r[1], 3)))
            if r[0] == "unsat":
                out.update(verdict="unsat", backend="z3", time=time.time() - t_start, model=None, trail=trail,
                           ninst=ninst, gen_time=gen, text=qf_text)
                return out
            # a `sat` here may be an artefact of the relevance filter: redo with the full instantiation
            t0 = time.time()
            qf_text, ninst = qf_builder(False)
            gen += time.time() - t0
        else:
            qf_text = qf_builder
        if jq is not None and jq.poll() == "unsat":
            trail.append(("cvc5-q", "unsat", round(time.time() - jq.t0, 3)))
            out.update(verdict="unsat", backend="cvc5-q", time=time.time() - t_start, model=None, trail=trail,
                       ninst=ninst, gen_time=gen, text=None)
            return out
        if z3_only:
            # regular-language obligations: z3 only, as a killable process
            r = run_z3_cli(qf_text, budgets.get("z3_cli_t", 120))
            trail.append(("z3-cli", r[0], round(r[1], 3)))
            out.update(verdict=r[0], backend="z3-regex", time=time.time() - t_start, model=r[2], trail=trail,
                       reason=r[3], ninst=ninst, gen_time=gen, text=qf_text)
            return out
        r = run_z3(qf_text, budgets.get("z3_quick", Z3_QUICK))
        trail.append(("z3", r[0], round(r[1], 3)))
        if r[0] in ("sat", "unsat"):
            out.update(verdict=r[0], backend="z3", time=time.time() - t_start, model=r[2], trail=trail,
                       ninst=ninst, gen_time=gen, text=qf_text)
            return out
        th = Z3Proc(qf_text, budgets.get("z3_t", Z3_T))
        th.start()
        jc = None
        if not z3_only:
            jc = Cvc5Job(qf_text, budgets.get("cvc5_t", CVC5_T), "cvc5")
            jobs.append(jc)
        verdict, backend = "unknown", "z3"
        while True:
            if th.result is not None and th.result[0] in ("sat", "unsat"):
                verdict, backend, model = th.result[0], "z3", th.result[2]
                trail.append(("z3#2", verdict, round(th.result[1], 3)))
                break
            if jq is not None and jq.poll() == "unsat":
                verdict, backend = "unsat", "cvc5-q"
                trail.append(("cvc5-q", "unsat", round(time.time() - jq.t0, 3)))
                break
            if jc is not None and jc.poll() in ("sat", "unsat"):
                v2 = jc.verdict
                trail.append(("cvc5", v2, round(time.time() - jc.t0, 3)))
                if v2 == "unsat":
                    verdict, backend = "unsat", "cvc5"
                    break
                # sat from cvc5: give z3 a little longer for a model / cross-check
                th.join(timeout=10.0)
                if th.result is not None and th.result[0] == "unsat":
                    out.update(verdict="disagree", backend="z3/cvc5", time=time.time() - t_start, model=None,
                               trail=trail, ninst=ninst, gen_time=gen, text=qf_text)
                    return out
                verdict, backend = "sat", "cvc5"
                model = th.result[2] if th.result is not None else None
                break
            done_z3 = th.result is not None
            done_c = jc is None or jc.poll() is not None
            done_q = jq is None or jq.poll() is not None
            if done_z3 and done_c and done_q:
                reason = th.result[3] if th.result else ""
                trail.append(("all", "unknown", round(time.time() - t_start, 3)))
                break
            time.sleep(0.03)
        th.stop()
        if verdict == "sat" and jq is not None and jq.poll() == "unsat":
            verdict, backend = "disagree", "cvc5-q/qf"
        out.update(verdict=verdict, backend=backend, time=time.time() - t_start, model=model, trail=trail,
                   reason=reason, ninst=ninst, gen_time=gen, text=qf_text)
        return out
    finally:
        for j in jobs:
            j.close()


_VCS = None
_ROUNDS = 2


def _solve_vc(idx):
    """Worker (forked after VC generation, so the z3 terms are inherited): print, instantiate, solve."""
    from . import inst
    vc = _VCS[idx]

    def consts_of(e, cache={}):
        i = e.get_id()
        r = cache.get(i)
        if r is None:
            r = set()
            stack, seen = [e], set()
            while stack:
                x = stack.pop()
                if x.get_id() in seen:
                    continue
                seen.add(x.get_id())
                if z3.is_app(x):
                    if x.num_args() == 0 and x.decl().kind() == z3.Z3_OP_UNINTERPRETED:
                        r.add(x.decl().name())
                    stack.extend(x.children())
            cache[i] = r
        return r

    def slice_hyps(hyps, goal, depth):
        """cone of influence: keep hypotheses sharing constants (transitively, `depth` steps) with the goal"""
        rel = set(consts_of(goal))
        keep = [False] * len(hyps)
        for _ in range(depth):
            grew = False
            for i, h in enumerate(hyps):
                if keep[i]:
                    continue
                c = consts_of(h)
                if c & rel:
                    keep[i] = True
                    if not c <= rel:
                        rel |= c
                        grew = True
            if not grew:
                break
        return [h for h, k in zip(hyps, keep) if k]

    def build_qf(relevance):
        if relevance == "sliced":
            hy = slice_hyps(list(vc.hyps), vc.goal, 2)
            extra = list(vc.extra_terms) + list(vc.meta.get("extra_terms", []))
            insts = inst.instantiate(hy + [vc.goal], vc.schemas, rounds=_ROUNDS, extra_terms=extra, relevance=True)
            return to_smt2(hy + insts, z3.Not(vc.goal)), len(insts)
        ground = list(vc.hyps) + [vc.goal]
        if "goal_terms" in vc.meta:
            ground.append(vc.meta["goal_terms"] == vc.meta["goal_terms"])
        extra = list(vc.extra_terms) + list(vc.meta.get("extra_terms", []))
        insts = inst.instantiate(ground, vc.schemas, rounds=vc.meta.get("rounds", _ROUNDS), extra_terms=extra,
                                 relevance=relevance)
        return to_smt2(list(vc.hyps) + insts, z3.Not(vc.goal)), len(insts)

    has_q = any(sc.vars for sc in vc.schemas)
    qtext = quantified_text(vc) if has_q and not vc.meta.get("no_q") else None
    r = _race(vc.name, qtext, build_qf, z3_only=vc.meta.get("z3_only", False), budgets=vc.meta)
    r["idx"] = idx
    text = r.pop("text", None)
    r["size"] = len(text) if text else (len(qtext) if qtext else 0)
    if vc.meta.get("keep_text") or r["verdict"] not in ("unsat",):
        r["text"] = text or qtext
    return r


def solve_vcs(vcs, rounds=2, jobs=None):
    """Discharge VCs in a fork pool created now (children inherit the z3 terms)."""
    global _VCS, _ROUNDS
    todo = [i for i, vc in enumerate(vcs) if not vc.meta.get("trivial")]
    results = [None] * len(vcs)
    for i, vc in enumerate(vcs):
        if vc.meta.get("trivial"):
            results[i] = {"name": vc.name, "verdict": "unsat", "backend": "trivial", "time": 0.0, "idx": i,
                          "ninst": 0, "gen_time": 0.0, "model": None, "trail": []}
    if not todo:
        return results
    _VCS, _ROUNDS = vcs, rounds
    n = jobs or int(os.environ.get("PYVC_JOBS", "16"))
    if os.environ.get("PYVC_SERIAL"):
        out = [_solve_vc(i) for i in todo]
    else:
        # hard wall-clock limit: a solver call that ignores its own timeout must not hang the check
        hard = float(os.environ.get("PYVC_HARD_LIMIT", "0")) or (600 + 400.0 * len(todo) / max(1, min(n, len(todo))))
        t0 = time.time()
        pool = mp.get_context("fork").Pool(min(n, len(todo)))
        out = []
        try:
            pending = [(i, pool.apply_async(_solve_vc, (i,))) for i in todo]
            for i, ar in pending:
                try:
                    out.append(ar.get(timeout=max(1.0, hard - (time.time() - t0))))
                except mp.TimeoutError:
                    out.append({"name": vcs[i].name, "verdict": "unknown", "backend": "none", "time": hard, "idx": i,
                                "ninst": 0, "gen_time": 0.0, "model": None, "trail": [("hard-limit", "unknown", hard)],
                                "reason": "solver did not return within the hard wall-clock limit"})
        finally:
            pool.terminate()
            pool.join()
    for r in out:
        results[r["idx"]] = r
    return results
