"""Symbolic types and values for the pyvc symbolic executor."""
import z3


class Ty:
    __slots__ = ("kind", "args")

    def __init__(self, kind, *args):
        self.kind = kind
        self.args = args

    def __eq__(self, o):
        return isinstance(o, Ty) and self.kind == o.kind and self.args == o.args

    def __hash__(self):
        return hash((self.kind, self.args))

    def __repr__(self):
        if not self.args:
            return self.kind
        return "%s[%s]" % (self.kind, ",".join(map(repr, self.args)))


INT = Ty("int")
BOOL = Ty("bool")
STR = Ty("str")
BITS = Ty("bits")
NONE = Ty("none")
ANY = Ty("any")


def Opt(t):
    return Ty("opt", t)


def Tup(*ts):
    return Ty("tup", *ts)


def SeqT(t):
    return Ty("seq", t)


def SetT(t):
    return Ty("set", t)


def MapT(k, v):
    return Ty("map", k, v)


def BimapT(k, v):
    return Ty("bimap", k, v)


def ObjT(name):
    return Ty("obj", name)


def Opq(name):
    return Ty("opq", name)


_OPQ_SORTS = {}


def sort_of(ty):
    k = ty.kind
    if k == "int":
        return z3.IntSort()
    if k == "bool":
        return z3.BoolSort()
    if k == "str":
        return z3.StringSort()
    if k == "bits":
        return z3.SeqSort(z3.BoolSort())
    if k == "opq":
        n = ty.args[0]
        if n not in _OPQ_SORTS:
            _OPQ_SORTS[n] = z3.DeclareSort(n)
        return _OPQ_SORTS[n]
    if k == "seq":
        return z3.SeqSort(sort_of(ty.args[0]))
    if k == "bv":
        return z3.BitVecSort(ty.args[0])
    if k == "set":
        return z3.ArraySort(sort_of(ty.args[0]), z3.BoolSort())
    raise TypeError("no SMT sort for type %r" % (ty,))


def is_prim(ty):
    return ty.kind in ("int", "bool", "str", "bits", "opq", "seq", "set", "bv")


class Val:
    pass


class P(Val):
    """Primitive value: a z3 term of sort sort_of(ty)."""
    __slots__ = ("ty", "term")

    def __init__(self, ty, term):
        self.ty = ty
        self.term = term

    def __repr__(self):
        return "P(%r,%s)" % (self.ty, self.term)


class NoneV(Val):
    ty = NONE

    def __repr__(self):
        return "NoneV"


class OptV(Val):
    """Optional: `some` (z3 Bool) and the payload (valid only when some)."""

    def __init__(self, some, val):
        self.some = some
        self.val = val
        self.ty = Opt(val.ty)

    def __repr__(self):
        return "OptV(%s,%r)" % (self.some, self.val)


class TupV(Val):
    def __init__(self, items):
        self.items = tuple(items)
        self.ty = Tup(*[getattr(i, "ty", ANY) for i in self.items])

    def __repr__(self):
        return "TupV%r" % (self.items,)


class MapV(Val):
    """dict as (dom, val, size).  size may be None when not tracked."""

    def __init__(self, kt, vt, dom, val, size=None):
        self.kt, self.vt, self.dom, self.val, self.size = kt, vt, dom, val, size
        self.ty = MapT(kt, vt)

    def __repr__(self):
        return "MapV(%r->%r)" % (self.kt, self.vt)


class BimapV(Val):
    def __init__(self, fwd, inv):
        self.fwd, self.inv = fwd, inv
        self.ty = BimapT(fwd.kt, fwd.vt)


class InvView(Val):
    """`b.inv` of a bidict held in heap cell / field."""

    def __init__(self, loc):
        self.loc = loc  # location of the bidict
        self.ty = Ty("invview")


class Ref(Val):
    def __init__(self, rid, ty):
        self.rid = rid
        self.ty = ty

    def __repr__(self):
        return "Ref(%s,%r)" % (self.rid, self.ty)


class ObjV:
    def __init__(self, cls, fields):
        self.cls = cls
        self.fields = dict(fields)

    def copy(self):
        return ObjV(self.cls, self.fields)


class Conc(Val):
    """Concrete Python constant (int, str, bool, None, list, tuple, dict)."""

    def __init__(self, v):
        self.v = v
        self.ty = Ty("conc")

    def __repr__(self):
        return "Conc(%r)" % (self.v,)


class StrOfInt(Val):
    """`str(e)` of an int: becomes a bit (BITS) or a decimal numeral (STR) on demand."""

    def __init__(self, term):
        self.term = term
        self.ty = Ty("strofint")


class Fun(Val):
    def __init__(self, kind, **kw):
        self.kind = kind
        self.__dict__.update(kw)
        self.ty = Ty("fun")


class Mod(Val):
    def __init__(self, name):
        self.name = name
        self.ty = Ty("mod")


class ClsV(Val):
    def __init__(self, module, name):
        self.module, self.name = module, name
        self.ty = Ty("cls")


class Special(Val):
    """engine-internal tagged value (range objects, enumerate, generators, match objects...)"""

    def __init__(self, tag, **kw):
        self.tag = tag
        self.__dict__.update(kw)
        self.ty = Ty("special", tag)


# ---- formula IR for contracts --------------------------------------------

class F:
    pass


class FG(F):  # ground
    def __init__(self, b):
        self.b = b


class FAnd(F):
    def __init__(self, parts, labels=None):
        self.parts = parts
        self.labels = labels or [str(i) for i in range(len(parts))]


class FImp(F):
    def __init__(self, g, body):
        self.g, self.body = g, body


class FAll(F):
    def __init__(self, vars_, guard, body, triggers=None):
        self.vars, self.guard, self.body, self.triggers = vars_, guard, body, triggers


class FAny(F):
    """existential (bounded): exists vars. guard /\\ body   (body ground)"""

    def __init__(self, vars_, guard, body):
        self.vars, self.guard, self.body = vars_, guard, body


class Schema:
    """Universally quantified hypothesis  forall vars. body  (body ground in vars)."""

    def __init__(self, name, vars_, body, triggers=None, origin="hyp"):
        self.name, self.vars, self.body, self.triggers, self.origin = name, list(vars_), body, triggers, origin

    def __repr__(self):
        return "Schema(%s)" % self.name
