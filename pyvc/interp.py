"""Expression evaluator and statement executor (symbolic) on Python ast."""
import ast
import z3

from .sym import *  # noqa
from .engine import (Engine, Unsupported, ReturnSig, RaiseSig, BreakSig, ContinueSig, PathCut,
                     zint, zstr, bits_lit, is_bitstr)
from . import lib
from .repo import MODULES, RePattern, EnumMember

BUILTINS = {"len", "int", "str", "range", "enumerate", "reversed", "zip", "sum", "any", "all", "list",
            "set", "ord", "chr", "isinstance", "super", "min", "max", "tuple", "dict", "open", "bool",
            "ValueError", "KeyError", "IndexError", "Exception", "NotImplementedError", "OSError",
            "TypeError", "sorted", "abs"}


class Interp(Engine):

    # ================================================================= names
    def lookup_name(self, name, node=None):
        if self.spec_mode:
            for env in reversed(self.spec_envs):
                if name in env:
                    return env[name]
        if name in self.st.vars:
            return self.st.vars[name]
        if self.spec_mode:
            v = self.reg.spec_name(self, name)
            if v is not None:
                return v
        mod = self.module
        key = "%s:%s" % (mod, name)
        if key in self.repo.funcs:
            return Fun("repo", fi=self.repo.funcs[key])
        if key in self.repo.classes:
            return ClsV(mod, name)
        if self.repo.has_const(mod, name) and name not in self.repo.imports.get(mod, {}):
            return Conc(self.repo.const(mod, name))
        imp = self.repo.imports.get(mod, {}).get(name)
        if imp is not None:
            return self.resolve_import(imp, name)
        if name in BUILTINS:
            return Fun("builtin", name=name)
        if name in ("True", "False", "None"):
            return Conc({"True": True, "False": False, "None": None}[name])
        raise Unsupported("unknown name %s" % name)

    def resolve_import(self, imp, name):
        if imp[0] == "mod":
            return Mod(imp[1])
        _, base, obj = imp
        full = base + "." + obj
        if full in MODULES:
            return Mod(full)
        if base in MODULES:
            key = "%s:%s" % (base, obj)
            if key in self.repo.funcs:
                return Fun("repo", fi=self.repo.funcs[key])
            if key in self.repo.classes:
                return ClsV(base, obj)
            if self.repo.has_const(base, obj):
                return Conc(self.repo.const(base, obj))
        if self.module and self.repo.has_const(self.module, name):
            return Conc(self.repo.const(self.module, name))     # imported constant of a module we do not parse
        return Fun("ext", name=full)

    # ================================================================= expressions
    def ev(self, n):
        m = getattr(self, "ev_" + type(n).__name__, None)
        if m is None:
            raise Unsupported("expression %s" % type(n).__name__)
        return m(n)

    def ev_Constant(self, n):
        return Conc(n.value)

    def ev_Name(self, n):
        return self.lookup_name(n.id, n)

    def ev_Tuple(self, n):
        return TupV([self.ev(e) for e in n.elts])

    def ev_List(self, n):
        items = [self.ev(e) for e in n.elts]
        if self.spec_mode and all(isinstance(i, Conc) for i in items):
            return Conc([i.v for i in items])
        return lib.make_list(self, items)   # a list display creates a fresh mutable list

    def ev_JoinedStr(self, n):
        parts = []
        for v in n.values:
            if isinstance(v, ast.Constant):
                parts.append(Conc(v.value))
            elif isinstance(v, ast.FormattedValue):
                if v.format_spec is not None or v.conversion != -1:
                    raise Unsupported("f-string conversion/spec")
                parts.append(lib.to_str(self, self.ev(v.value)))
            else:
                raise Unsupported("f-string part")
        acc = Conc("")
        for p in parts:
            acc = lib.binop_add(self, acc, p, n)
        return acc

    def ev_IfExp(self, n):
        c = self.truth(self.ev(n.test))
        cs = z3.simplify(c)
        if z3.is_true(cs):
            return self.ev(n.body)
        if z3.is_false(cs):
            return self.ev(n.orelse)
        self.guards.append(c)
        try:
            a = self.ev(n.body)
        finally:
            self.guards.pop()
        self.guards.append(z3.Not(c))
        try:
            b = self.ev(n.orelse)
        finally:
            self.guards.pop()
        return self.ite(c, a, b)

    def ev_BoolOp(self, n):
        # value semantics of and/or only for booleans-as-truth (sufficient for conditions)
        vals = []
        pushed = 0
        try:
            for e in n.values:
                v = self.ev(e)
                t = self.truth(v)
                vals.append((v, t))
                self.guards.append(t if isinstance(n.op, ast.And) else z3.Not(t))
                pushed += 1
        finally:
            for _ in range(pushed):
                self.guards.pop()
        ts = [t for _, t in vals]
        if all(isinstance(v, P) and v.ty == BOOL or isinstance(v, Conc) and isinstance(v.v, bool) for v, _ in vals) \
                or self.want_truth:
            return P(BOOL, z3.And(ts) if isinstance(n.op, ast.And) else z3.Or(ts))
        # general value semantics: a or b -> a if truth(a) else b
        acc = vals[-1][0]
        for v, t in reversed(vals[:-1]):
            try:
                acc = self.ite(t, acc, v) if isinstance(n.op, ast.And) else self.ite(t, v, acc)
            except Unsupported:
                # operands that cannot be joined into one value (e.g. two different list objects): fork the path
                if self.decide(t):
                    acc = acc if isinstance(n.op, ast.And) else v
                else:
                    acc = v if isinstance(n.op, ast.And) else acc
        return acc

    want_truth = False
    merge_ifs = True
    no_let = bool(__import__("os").environ.get("PYVC_NO_LET"))

    def ev_UnaryOp(self, n):
        v = self.ev(n.operand)
        if isinstance(n.op, ast.Not):
            return P(BOOL, z3.Not(self.truth(v)))
        if isinstance(n.op, ast.USub):
            if isinstance(v, Conc):
                return Conc(-v.v)
            return P(INT, -self.term(v, INT))
        raise Unsupported("unary op")

    def ev_BinOp(self, n):
        a, b = self.ev(n.left), self.ev(n.right)
        return lib.binop(self, n.op, a, b, n)

    def ev_Compare(self, n):
        left = self.ev(n.left)
        res = []
        for op, rn in zip(n.ops, n.comparators):
            right = self.ev(rn)
            res.append(lib.compare(self, op, left, right, n))
            left = right
        return P(BOOL, res[0] if len(res) == 1 else z3.And(res))

    def ev_Lambda(self, n):
        # default values are evaluated when the lambda is created (Python semantics)
        a = n.args
        names = [p.arg for p in a.args]
        defaults = {}
        for p, d in zip(names[len(names) - len(a.defaults):], a.defaults):
            defaults[p] = self.ev(d)
        return Fun("lambda", node=n, closure=dict(self.st.vars), module=self.module, defaults=defaults)

    def ev_Attribute(self, n):
        base = self.ev(n.value)
        return lib.getattr_(self, base, n.attr, n)

    def ev_Subscript(self, n):
        base = self.ev(n.value)
        if isinstance(n.slice, ast.Slice):
            lo = self.ev(n.slice.lower) if n.slice.lower is not None else None
            hi = self.ev(n.slice.upper) if n.slice.upper is not None else None
            if n.slice.step is not None:
                raise Unsupported("slice step")
            return lib.slice_(self, base, lo, hi, n)
        idx = self.ev(n.slice)
        return lib.index(self, base, idx, n)

    def ev_Call(self, n):
        return lib.call(self, n)

    def ev_ListComp(self, n):
        return lib.comprehension(self, n, "list")

    def ev_SetComp(self, n):
        return lib.comprehension(self, n, "set")

    def ev_GeneratorExp(self, n):
        return Special("genexp", node=n, closure=dict(self.st.vars))

    def ev_DictComp(self, n):
        return lib.comprehension(self, n, "dict")

    def ev_Dict(self, n):
        if all(isinstance(k, ast.Constant) for k in n.keys) and all(isinstance(v, ast.Constant) for v in n.values):
            return Conc({k.value: v.value for k, v in zip(n.keys, n.values)})
        if not n.keys:
            return Conc({})
        raise Unsupported("dict display with symbolic items")

    # ================================================================= locations
    def eval_loc(self, n):
        if isinstance(n, ast.Name):
            return ("var", n.id)
        if isinstance(n, ast.Attribute):
            base = self.ev(n.value)
            if isinstance(base, Ref) and base.ty.kind == "obj":
                return ("field", base, n.attr)
            if isinstance(base, Ref) and base.ty.kind == "bimap" and n.attr == "inv":
                return ("inv", base)
            raise Unsupported("attribute location on %r" % (base,))
        raise Unsupported("location %s" % type(n).__name__)

    def store(self, loc, val):
        if loc[0] == "var":
            self.st.vars[loc[1]] = val
        elif loc[0] == "field":
            self.set_field(loc[1], loc[2], val)
        else:
            raise Unsupported("store to %r" % (loc,))

    def name_value(self, hint, val):
        """let-binding: name a compound term by a fresh constant (keeps VCs small and E-matching effective)"""
        if self.spec_mode or not isinstance(val, P) or val.ty.kind == "bv" or self.no_let:
            return val
        t = val.term
        if not z3.is_app(t) or t.num_args() == 0 or all(c.num_args() == 0 for c in t.children() if z3.is_app(c)) \
                and t.num_args() <= 2:
            return val
        c = z3.Const(self.fresh_name("let." + hint), t.sort())
        self.st.pc.append(c == t)
        return P(val.ty, c)

    def assign(self, target, val):
        if isinstance(target, ast.Name):
            self.st.vars[target.id] = self.name_value(target.id, val)
        elif isinstance(target, (ast.Tuple, ast.List)):
            items = lib.unpack(self, val, len(target.elts))
            for t, v in zip(target.elts, items):
                self.assign(t, v)
        elif isinstance(target, ast.Attribute):
            self.store(self.eval_loc(target), val)
        elif isinstance(target, ast.Subscript):
            cont = self.ev(target.value)
            if isinstance(target.slice, ast.Slice):
                raise Unsupported("slice assignment")
            key = self.ev(target.slice)
            lib.setitem(self, cont, key, val, target)
        else:
            raise Unsupported("assignment target %s" % type(target).__name__)

    # ================================================================= statements
    def exec_block(self, stmts):
        for s in stmts:
            self.exec_stmt(s)

    stepwise = None
    stepwise_facts = []
    stepwise_chain = {}
    stepwise_ctx = ()

    def exec_stmt(self, s):
        m = getattr(self, "st_" + type(s).__name__, None)
        if m is None:
            raise Unsupported("statement %s" % type(s).__name__)
        if not self.stepwise or self.spec_mode or not isinstance(s, ast.If):
            return m(s)
        # ghost stepwise-conserved quantities (loop contract `stepwise`): prove e_after == e_before for this
        # statement as a small obligation of its own, then keep the equality as a fact for the loop-step VC
        before = [self.stepwise_value(e) for e in self.stepwise]
        npc = len(self.st.pc)
        r = m(s)
        for i, e in enumerate(self.stepwise):
            a, b = before[i], self.stepwise_value(e)
            if a is None or b is None or a.eq(b):
                continue
            # local obligation: only the facts introduced by this statement are needed
            saved_pc = self.st.pc
            a_, b_ = getattr(self, "inv_pc_range", (0, 0))
            # facts available to the local obligation: the invariant assumed at the start of the iteration, the
            # equalities established by earlier steps, and what this statement introduced
            if i in self.stepwise_ctx:
                self.st.pc = saved_pc[a_:b_] + list(self.stepwise_chain.get(i, [])) + saved_pc[npc:]
            else:
                self.st.pc = saved_pc[npc:]
            try:
                self.emit("%s#stepwise.%d[%s]" % (self.cur_func, i, e[:30]), a == b, meta={"kind": "loop-step"})
            finally:
                self.st.pc = saved_pc
            self.stepwise_facts.append(a == b)
            self.stepwise_chain.setdefault(i, []).append(a == b)
        return r

    def stepwise_value(self, e):
        try:
            self.spec_mode += 1
            self.spec_envs.append({"entry_" + k_: v_ for k_, v_ in getattr(self, "entry_env", {}).items()})
            try:
                return self.term(self.ev(ast.parse(e, mode="eval").body))
            finally:
                self.spec_envs.pop()
                self.spec_mode -= 1
        except (Unsupported, KeyError):
            return None

    def st_Pass(self, s):
        pass

    def st_Expr(self, s):
        if isinstance(s.value, ast.Constant):
            return  # docstring
        self.ev(s.value)

    def st_Assign(self, s):
        v = self.ev(s.value)
        for t in s.targets:
            self.assign(t, v)

    def st_AugAssign(self, s):
        cur = self.ev(s.target)
        v = self.ev(s.value)
        if isinstance(s.op, ast.Add) and isinstance(cur, Ref) and cur.ty.kind == "list":
            lib.list_extend(self, cur, v)
            return
        self.assign(s.target, lib.binop(self, s.op, cur, v, s))

    def st_Return(self, s):
        raise ReturnSig(self.ev(s.value) if s.value is not None else NoneV())

    def mergeable(self, stmts):
        """branch consisting only of assignments to local names (state can be merged with ite instead of forking)"""
        for st in stmts:
            if isinstance(st, ast.Assign):
                if not all(isinstance(t, ast.Name) for t in st.targets):
                    return False
                val = st.value
            elif isinstance(st, ast.AugAssign):
                if not isinstance(st.target, ast.Name):
                    return False
                val = st.value
            elif isinstance(st, ast.Pass):
                continue
            else:
                return False
            for n in ast.walk(val):
                if isinstance(n, ast.Call):
                    f = n.func
                    ok = (isinstance(f, ast.Name) and f.id in ("len", "int", "str", "ord", "chr")) or \
                         (isinstance(f, ast.Attribute) and f.attr in ("startswith", "endswith", "lower", "upper", "split"))
                    if not ok:
                        return False
                if isinstance(n, (ast.Lambda, ast.ListComp, ast.GeneratorExp, ast.Yield)):
                    return False
        return True

    def st_If(self, s):
        self.want_truth = True
        try:
            c = self.truth(self.ev(s.test))
        finally:
            self.want_truth = False
        cs = z3.simplify(c)
        if not z3.is_true(cs) and not z3.is_false(cs) and not self.spec_mode and self.merge_ifs \
                and self.mergeable(s.body) and self.mergeable(s.orelse):
            # state merging: run both branches on copies of the locals and join with ite
            base = dict(self.st.vars)
            out = []
            for guard, stmts in ((c, s.body), (z3.Not(c), s.orelse)):
                self.st.vars = dict(base)
                self.guards.append(guard)
                try:
                    self.exec_block(stmts)
                finally:
                    self.guards.pop()
                out.append(self.st.vars)
            merged = dict(base)
            try:
                for k in set(out[0]) | set(out[1]):
                    a, b = out[0].get(k), out[1].get(k)
                    if a is None or b is None:
                        raise Unsupported("variable %s defined in one branch only" % k)
                    merged[k] = a if a is b else self.ite(c, a, b)
                self.st.vars = merged
                return
            except Unsupported:
                self.st.vars = base      # fall back to forking
        if self.decide(c):
            self.exec_block(s.body)
        else:
            self.exec_block(s.orelse)

    def st_Raise(self, s):
        exc = s.exc
        name = None
        if isinstance(exc, ast.Call):
            f = exc.func
            name = f.attr if isinstance(f, ast.Attribute) else getattr(f, "id", None)
        elif isinstance(exc, ast.Name):
            name = exc.id
        elif exc is None:
            name = self.current_exc
        if name is None:
            raise Unsupported("raise of non-name")
        raise RaiseSig(name)

    current_exc = None

    def st_Break(self, s):
        raise BreakSig()

    def st_Continue(self, s):
        raise ContinueSig()

    def st_Try(self, s):
        if s.finalbody:
            raise Unsupported("try/finally")
        caught = []
        for h in s.handlers:
            if h.type is None:
                caught.append("BaseException")
            elif isinstance(h.type, ast.Name):
                caught.append(h.type.id)
            elif isinstance(h.type, ast.Attribute):
                caught.append(h.type.attr)
            else:
                raise Unsupported("except with tuple")
        self.try_stack.append(caught)
        try:
            try:
                self.exec_block(s.body)
            finally:
                self.try_stack.pop()
        except RaiseSig as r:
            for h, c in zip(s.handlers, caught):
                if lib.exc_matches(r.exc, c):
                    if h.name:
                        self.st.vars[h.name] = Special("exc", name=r.exc)
                    prev = self.current_exc
                    self.current_exc = r.exc
                    try:
                        self.exec_block(h.body)
                    finally:
                        self.current_exc = prev
                    return
            raise
        else:
            self.exec_block(s.orelse)

    def st_FunctionDef(self, s):
        """nested function: a closure over the enclosing activation (free variables are read from the enclosing
        frame at call time while that frame is active - Python's by-reference capture -, else from the snapshot
        taken here); defaults are evaluated now"""
        a = s.args
        if a.vararg or a.kwarg or a.kwonlyargs or s.decorator_list:
            raise Unsupported("nested function with *args/**kwargs/keyword-only parameters or decorators")
        for sub in ast.walk(s):
            if isinstance(sub, (ast.Nonlocal, ast.Global, ast.Yield, ast.YieldFrom, ast.Await)):
                raise Unsupported("nested function with nonlocal/global/yield")
        names = [p.arg for p in a.args]
        defaults = {}
        for p, d in zip(names[len(names) - len(a.defaults):], a.defaults):
            defaults[p] = self.ev(d)
        self.st.vars[s.name] = Fun("lambda", node=s, closure=dict(self.st.vars), module=self.module, defaults=defaults,
                                   def_fi=self.cur_fi, def_depth=len(self.inline_stack))

    def may_catch(self, exc):
        """True if an exception of class `exc` raised now would be handled (try or contract)."""
        for caught in self.try_stack:
            if any(lib.exc_matches(exc, c) for c in caught):
                return True
        return exc in self.allowed_raises

    def st_For(self, s):
        lib.exec_for(self, s)

    def st_While(self, s):
        lib.exec_while(self, s)

    def st_With(self, s):
        lib.exec_with(self, s)

    def st_Assert(self, s):
        c = self.truth(self.ev(s.test))
        if not self.decide(c):
            raise RaiseSig("AssertionError")
