"""pyvc symbolic executor / verification-condition generator.

Forward symbolic execution of the *real* function ast (re-read from the working tree on
every run) against sidecar contracts.  Paths are enumerated by re-execution with a
decision prefix (every fork point asks `decide`); loops are cut by invariants; repo
callees with a contract are replaced by their contract (modular), callees without one
are inlined.  Each proof obligation becomes one or more quantifier-free VCs.
"""
import ast
import z3

from .sym import *  # noqa
from . import inst as _inst


class Unsupported(Exception):
    """construct outside the supported subset -> function is *undecided*, never a violation"""


class ContractMismatch(Exception):
    pass


class ReturnSig(Exception):
    def __init__(self, value):
        self.value = value


class RaiseSig(Exception):
    def __init__(self, exc, msg=None):
        self.exc = exc  # exception class name
        self.msg = msg


class BreakSig(Exception):
    pass


class ContinueSig(Exception):
    pass


class PathCut(Exception):
    """path ends here (e.g. after proving a loop step)"""


class VC:
    def __init__(self, name, hyps, schemas, goal, extra_terms=(), meta=None):
        self.name, self.hyps, self.schemas, self.goal = name, list(hyps), list(schemas), goal
        self.extra_terms = list(extra_terms)
        self.meta = meta or {}


class State:
    def __init__(self):
        self.vars = {}
        self.heap = {}
        self.pc = []
        self.schemas = []
        self.log = []       # ghost log: list of (level, [args])
        self.out = {}       # ghost out streams: rid -> z3 Seq(String) of writes
        self.globals_written = []
        self.calls = []     # ghost: (callee key, bound arguments) of calls to contracts with record=True

    def copy(self):
        s = State()
        s.vars = dict(self.vars)
        s.heap = dict(self.heap)
        s.pc = list(self.pc)
        s.schemas = list(self.schemas)
        s.log = list(self.log)
        s.out = dict(self.out)
        s.globals_written = list(self.globals_written)
        return s


def zint(v):
    return z3.IntVal(v)


def zstr(s):
    return z3.StringVal(s)


def is_bitstr(s):
    return isinstance(s, str) and all(c in "01" for c in s)


def bits_lit(s):
    if s == "":
        return z3.Empty(z3.SeqSort(z3.BoolSort()))
    parts = [z3.Unit(z3.BoolVal(c == "1")) for c in s]
    return parts[0] if len(parts) == 1 else z3.Concat(*parts)


class Engine:
    """One Engine per verification run (shares registry, repo, fresh-name counter per path)."""

    def __init__(self, repo, registry):
        self.repo = repo
        self.reg = registry
        self.reset_path()
        self.vcs = []
        self.vc_keys = set()
        self.used_assumptions = set()
        self.unrolled = set()
        self.notes = []

    # ------------------------------------------------------------------ paths
    def reset_path(self, prefix=()):
        self.prefix = list(prefix)
        self.trace = []
        self.counter = {}
        self.fresh_log = []
        self.st = State()
        self.spec_mode = 0
        self.heap_override = None
        self.cur_func = None
        self.call_depth = 0
        self.guards = []

    def fresh_name(self, hint):
        n = self.counter.get(hint, 0)
        self.counter[hint] = n + 1
        name = "%s!%d" % (hint, n)
        self.fresh_log.append(name)
        return name

    def fresh(self, ty, hint="v"):
        k = ty.kind
        if is_prim(ty):
            return P(ty, z3.Const(self.fresh_name(hint), sort_of(ty)))
        if k == "none":
            return NoneV()
        if k == "opt":
            return OptV(z3.Bool(self.fresh_name(hint + ".some")), self.fresh(ty.args[0], hint + ".val"))
        if k == "tup":
            return TupV([self.fresh(t, hint + "." + str(i)) for i, t in enumerate(ty.args)])
        if k == "map":
            return self.fresh_map(ty.args[0], ty.args[1], hint)
        if k == "bimap":
            bm = BimapV(self.fresh_map(ty.args[0], ty.args[1], hint + ".fwd"),
                        self.fresh_map(ty.args[1], ty.args[0], hint + ".inv"))
            self.assume_bimap_consistent(bm)
            return bm
        if k == "obj":
            return self.fresh_obj(ty.args[0], hint)
        raise Unsupported("fresh value of type %r" % (ty,))

    def fresh_map(self, kt, vt, hint):
        ks = sort_of(kt)
        dom = z3.Const(self.fresh_name(hint + ".dom"), z3.ArraySort(ks, z3.BoolSort()))
        if is_prim(vt):
            val = z3.Const(self.fresh_name(hint + ".val"), z3.ArraySort(ks, sort_of(vt)))
        else:
            raise Unsupported("map value type %r" % (vt,))
        size = z3.Int(self.fresh_name(hint + ".size"))
        self.st.pc.append(size >= 0)
        return MapV(kt, vt, dom, val, size)

    def assume_bimap_consistent(self, bm):
        """Type invariant of bidict (assumed contract E-bidict): fwd and inv are mutually inverse."""
        self.used_assumptions.add("E-bidict")
        k = z3.Const(self.fresh_name("bk"), sort_of(bm.fwd.kt))
        v = z3.Const(self.fresh_name("bv"), sort_of(bm.fwd.vt))
        f, i = bm.fwd, bm.inv
        self.st.schemas.append(Schema("bidict.fwd_inv", [k], z3.Implies(
            z3.Select(f.dom, k),
            z3.And(z3.Select(i.dom, z3.Select(f.val, k)), z3.Select(i.val, z3.Select(f.val, k)) == k))))
        self.st.schemas.append(Schema("bidict.inv_fwd", [v], z3.Implies(
            z3.Select(i.dom, v),
            z3.And(z3.Select(f.dom, z3.Select(i.val, v)), z3.Select(f.val, z3.Select(i.val, v)) == v))))

    def fresh_obj(self, tyname, hint):
        ot = self.reg.objtypes[tyname]
        fields = {}
        for fname, fty in ot.all_fields(self.reg).items():
            fields[fname] = self.fresh(fty, hint + "." + fname)
        rid = self.fresh_name("obj." + tyname)
        self.st.heap[rid] = ObjV(tyname, fields)
        return Ref(rid, ObjT(tyname))

    # ------------------------------------------------------------------ forks
    def decide(self, cond):
        c = z3.simplify(cond)
        if z3.is_true(c):
            return True
        if z3.is_false(c):
            return False
        i = len(self.trace)
        if i < len(self.prefix):
            d = self.prefix[i]
        else:
            d = True
            self.worklist.append(self.trace + [False])
        self.trace.append(d)
        self.st.pc.append(c if d else z3.Not(c))
        return d

    def choose(self, n, label=""):
        """n-way fork (used for case splits over constant tables); returns chosen index."""
        i = len(self.trace)
        if i < len(self.prefix):
            d = self.prefix[i]
        else:
            d = 0
            for alt in range(1, n):
                self.worklist.append(self.trace + [alt])
        self.trace.append(d)
        return d

    # ------------------------------------------------------------------ obligations
    def hyps(self):
        return list(self.st.pc) + list(self.guards)

    def emit(self, name, goal, extra_hyps=(), extra_terms=(), meta=None):
        """Register VC: pc /\\ guards /\\ extra_hyps |- goal (goal: z3 Bool)."""
        g = z3.simplify(goal)
        if z3.is_true(g):
            # still count as an obligation (trivially discharged)
            key = (name, "trivial")
            if key not in self.vc_keys:
                self.vc_keys.add(key)
                self.vcs.append(VC(name, [], [], z3.BoolVal(True), meta=dict(meta or {}, trivial=True)))
            return
        base = self.hyps()
        hyps = base + list(extra_hyps) + self.hint_lemma_instances(name)
        key = (name, tuple(h.get_id() for h in hyps), goal.get_id(),
               tuple(id(s) for s in self.st.schemas))
        if key in self.vc_keys:
            return
        self.vc_keys.add(key)
        m = dict(meta or {})
        m.setdefault("path", list(self.trace))
        m["nbase"] = len(base)
        en = getattr(self, "entry_pc_len", None)
        m["entry_n"] = en if en is not None and not self.guards else None
        extra_terms = list(extra_terms) + self.hint_terms()
        cc = getattr(self, "cur_con", None)
        if cc is not None and getattr(cc, "inst_rounds", None):
            m.setdefault("rounds", cc.inst_rounds)
        if z3.is_false(goal):
            # a structurally false goal (unexpected raise, failed ghost-trace check): provable only by showing the path
            # infeasible, which the quantified form does at once or not at all - no long model search
            m["false_goal"] = True
            m.setdefault("z3_t", 20)
            m.setdefault("cvc5_t", 20)
            m.setdefault("q_slow", 30)
            m["rounds"] = min(m.get("rounds", 2), 2)
        vc = VC(name, hyps, list(self.st.schemas) + self.reg.global_schemas(self), goal, extra_terms, m)
        vc._keep = hyps  # keep z3 refs alive
        self.vcs.append(vc)

    def hint_terms(self):
        return []

    def hint_lemma_instances(self, name):
        return []

    def safety(self, kind, goal, node=None):
        """Obligation for an operation that would raise in Python."""
        if self.spec_mode:
            return
        label = kind
        if node is not None:
            try:
                label = "%s[%s]" % (kind, ast.unparse(node)[:60])
            except Exception:
                pass
        self.emit("%s#safe.%s" % (self.cur_func, label), goal, meta={"kind": "safety"})
        # after the check, the operation succeeded on this path
        self.st.pc.append(z3.Implies(z3.And(self.guards), goal) if self.guards else goal)

    def prove(self, name, f, extra_hyps=(), meta=None, sk=()):
        """Prove formula IR `f` from the current state (sk: skolem constants introduced so far)."""
        if isinstance(f, FG):
            self.emit(name, f.b, extra_hyps, extra_terms=list(sk), meta=meta)
        elif isinstance(f, FAnd):
            for lab, p in zip(f.labels, f.parts):
                self.prove(name + "." + lab if lab else name, p, extra_hyps, meta, sk)
        elif isinstance(f, FImp):
            self.prove(name, f.body, list(extra_hyps) + [f.g], meta, sk)
        elif isinstance(f, FAll):
            # bound variables are fresh constants already: they act as skolems
            self.prove(name, f.body, list(extra_hyps) + [f.guard], meta, list(sk) + list(f.vars))
        elif isinstance(f, FAny):
            # goal-side existential: disjunction over the candidate witnesses available in the state
            # (witness constants of earlier `any(...)` evaluations); sound, possibly incomplete
            cands = self.witness_candidates(f.vars[0].sort())
            body = z3.And(f.guard, f.body)
            alts = [z3.substitute(body, (f.vars[0], c)) for c in cands]
            self.emit(name, z3.Or(alts) if alts else z3.BoolVal(False), extra_hyps, extra_terms=list(sk), meta=meta)
        else:
            raise Unsupported("formula %r" % (f,))

    def witness_candidates(self, sort):
        out, seen = [], set()
        for h in self.st.pc:
            stack = [h]
            while stack:
                x = stack.pop()
                if x.get_id() in seen:
                    continue
                seen.add(x.get_id())
                if z3.is_app(x):
                    if x.num_args() == 0 and x.decl().kind() == z3.Z3_OP_UNINTERPRETED \
                            and x.sort().eq(sort) and ".w!" in x.decl().name():
                        out.append(x)
                    stack.extend(x.children())
        return out

    def assume(self, f, name="hyp", guard=None, vars_=()):
        if isinstance(f, FAny):
            # hypothesis-side existential: skolemise (bound variables are fresh constants already)
            if vars_:
                raise Unsupported("existential under a universal hypothesis")
            b = z3.And(f.guard, f.body)
            self.st.pc.append(b if guard is None else z3.Implies(guard, b))
            return
        if isinstance(f, FG):
            b = f.b if guard is None else z3.Implies(guard, f.b)
            if vars_:
                self.st.schemas.append(Schema(name, vars_, b))
            else:
                self.st.pc.append(b)
        elif isinstance(f, FAnd):
            for lab, p in zip(f.labels, f.parts):
                self.assume(p, name + "." + lab, guard, vars_)
        elif isinstance(f, FImp):
            g = f.g if guard is None else z3.And(guard, f.g)
            self.assume(f.body, name, g, vars_)
        elif isinstance(f, FAll):
            g = f.guard if guard is None else z3.And(guard, f.guard)
            self.assume(f.body, name, g, list(vars_) + list(f.vars))
        else:
            raise Unsupported("formula %r" % (f,))

    # ------------------------------------------------------------------ heap access
    def heap(self):
        return self.heap_override if self.heap_override is not None else self.st.heap

    def get_field(self, ref, name):
        obj = self.heap()[ref.rid]
        if name not in obj.fields:
            raise Unsupported("field %s.%s not declared in objtype" % (obj.cls, name))
        return obj.fields[name]

    def set_field(self, ref, name, val):
        obj = self.st.heap[ref.rid].copy()
        ot = self.reg.objtypes.get(obj.cls)
        if ot is not None:
            decl = ot.all_fields(self.reg).get(name)
            if decl is None:
                raise Unsupported("assignment to undeclared field %s.%s" % (obj.cls, name))
            val = self.coerce(val, decl)
        obj.fields[name] = val
        self.st.heap[ref.rid] = obj

    # ------------------------------------------------------------------ coercions
    def coerce(self, v, ty):
        """Convert value to declared type (Conc -> P, StrOfInt -> bits/str, X -> Opt[X]...)."""
        k = ty.kind
        if k == "any":
            return v
        if k == "opt":
            if isinstance(v, OptV):
                return v
            if isinstance(v, NoneV) or (isinstance(v, Conc) and v.v is None):
                return OptV(z3.BoolVal(False), self.default(ty.args[0]))
            return OptV(z3.BoolVal(True), self.coerce(v, ty.args[0]))
        if isinstance(v, OptV) and k != "opt":
            # unwrap requires knowing it is some: caller's responsibility (refinement by pc)
            return self.coerce(v.val, ty)
        if is_prim(ty):
            return P(ty, self.term(v, ty))
        if k == "none":
            return NoneV()
        if k == "tup" and isinstance(v, TupV):
            return TupV([self.coerce(i, t) for i, t in zip(v.items, ty.args)])
        if k == "tup" and isinstance(v, Conc) and isinstance(v.v, (tuple, list)):
            return TupV([self.coerce(Conc(i), t) for i, t in zip(v.v, ty.args)])
        if k in ("map", "bimap", "obj"):
            return v
        return v

    def default(self, ty):
        if ty.kind == "int":
            return P(INT, zint(0))
        if ty.kind == "str":
            return P(STR, zstr(""))
        if ty.kind == "bits":
            return P(BITS, bits_lit(""))
        if ty.kind == "bool":
            return P(BOOL, z3.BoolVal(False))
        return self.fresh(ty, "dflt")

    def term(self, v, ty=None):
        """z3 term of value v, optionally converted to prim type ty."""
        if isinstance(v, P):
            if ty is None or v.ty == ty:
                return v.term
            if v.ty == BOOL and ty == INT:
                return z3.If(v.term, zint(1), zint(0))
            if v.ty.kind == "opq" and ty.kind == "opq":
                return v.term
            raise Unsupported("cannot convert %r to %r" % (v.ty, ty))
        if isinstance(v, Conc):
            c = v.v
            if ty is None:
                if type(c).__name__ == "EnumMember":
                    return zint(int(c.value))
                if isinstance(c, bool):
                    return z3.BoolVal(c)
                if isinstance(c, int):
                    return zint(c)
                if isinstance(c, str):
                    return zstr(c)
                raise Unsupported("term of concrete %r" % (c,))
            if ty == INT and isinstance(c, (int, bool)):
                return zint(int(c))
            if (ty == INT or ty is None) and type(c).__name__ == "EnumMember":
                return zint(int(c.value))
            if ty == BOOL and isinstance(c, bool):
                return z3.BoolVal(c)
            if ty == STR and isinstance(c, str):
                return zstr(c)
            if ty == BITS and is_bitstr(c):
                return bits_lit(c)
            if ty.kind == "seq" and isinstance(c, (list, tuple)):
                es = z3.Empty(sort_of(ty))
                parts = [z3.Unit(self.term(Conc(x), ty.args[0])) for x in c]
                if not parts:
                    return es
                return parts[0] if len(parts) == 1 else z3.Concat(*parts)
            raise Unsupported("cannot convert concrete %r to %r" % (c, ty))
        if isinstance(v, StrOfInt):
            if ty == BITS:
                self.emit("%s#enc.bit[str()]" % self.cur_func, z3.And(v.term >= 0, v.term <= 1),
                          meta={"kind": "encoding"})
                return z3.Unit(v.term == 1)
            if ty == STR or ty is None:
                return z3.IntToStr(v.term)
        if isinstance(v, OptV):
            return self.term(v.val, ty)
        raise Unsupported("no term for %r as %r" % (v, ty))

    def truth(self, v):
        if isinstance(v, P) and v.ty.kind == "set":
            # non-empty: fresh Bool b with (b => S[w]) and (forall x. S[x] => b)
            b = z3.Bool(self.fresh_name("set.nonempty"))
            w = z3.Const(self.fresh_name("set.w"), sort_of(v.ty.args[0]))
            x = z3.Const(self.fresh_name("set.any"), sort_of(v.ty.args[0]))
            self.st.pc.append(z3.Implies(b, z3.Select(v.term, w)))
            self.st.schemas.append(Schema("set.nonempty", [x], z3.Implies(z3.Select(v.term, x), b)))
            return b
        if isinstance(v, P):
            t = v.ty
            if t == BOOL:
                return v.term
            if t == INT:
                return v.term != 0
            if t in (STR, BITS) or t.kind == "seq":
                return z3.Length(v.term) > 0
            raise Unsupported("truthiness of %r" % (t,))
        if isinstance(v, Conc):
            return z3.BoolVal(bool(v.v))
        if isinstance(v, NoneV):
            return z3.BoolVal(False)
        if isinstance(v, OptV):
            return z3.And(v.some, self.truth(v.val))
        if isinstance(v, MapV):
            if v.size is None:
                raise Unsupported("truthiness of map without size")
            return v.size > 0
        if isinstance(v, Special) and v.tag == "emptyset":
            return z3.BoolVal(False)
        if isinstance(v, Special) and v.tag == "anyset":
            return z3.Bool(self.fresh_name("anyset.nonempty"))
        if isinstance(v, (Ref, Fun, Special)):
            if isinstance(v, Ref) and v.ty.kind in ("map", "bimap", "list", "setcell"):
                return self.truth(self.heap()[v.rid])
            return z3.BoolVal(True)
        if isinstance(v, TupV):
            return z3.BoolVal(len(v.items) > 0)
        if type(v).__name__ == "ListV":
            return z3.BoolVal(len(v.items) > 0)
        raise Unsupported("truthiness of %r" % (v,))

    def ite(self, c, a, b):
        c = z3.simplify(c)
        if z3.is_true(c):
            return a
        if z3.is_false(c):
            return b
        if isinstance(a, Conc) and isinstance(b, Conc) and type(a.v) is type(b.v) and a.v == b.v:
            return a
        if isinstance(a, (P, Conc, StrOfInt)) and isinstance(b, (P, Conc, StrOfInt)):
            ty = a.ty if isinstance(a, P) else (b.ty if isinstance(b, P) else None)
            if ty is None:
                ty = self.conc_type(a if isinstance(a, Conc) else b)
            return P(ty, z3.If(c, self.term(a, ty), self.term(b, ty)))
        a_none = isinstance(a, NoneV) or (isinstance(a, Conc) and a.v is None)
        b_none = isinstance(b, NoneV) or (isinstance(b, Conc) and b.v is None)
        if isinstance(a, Ref) and b_none:
            return OptV(c, a)
        if isinstance(b, Ref) and a_none:
            return OptV(z3.Not(c), b)
        if isinstance(a, Ref) and isinstance(b, OptV) and isinstance(b.val, Ref) and z3.is_false(z3.simplify(b.some)):
            return OptV(c, a)
        if isinstance(a, OptV) or isinstance(b, OptV) or isinstance(a, NoneV) or isinstance(b, NoneV) \
                or (isinstance(a, Conc) and a.v is None) or (isinstance(b, Conc) and b.v is None):
            inner = None
            for x in (a, b):
                if isinstance(x, OptV):
                    inner = x.val.ty
                elif isinstance(x, P):
                    inner = x.ty
            if inner is None:
                return NoneV()
            oa, ob = self.coerce(a, Opt(inner)), self.coerce(b, Opt(inner))
            return OptV(z3.If(c, oa.some, ob.some), self.ite(c, oa.val, ob.val))
        if isinstance(a, TupV) and isinstance(b, TupV) and len(a.items) == len(b.items):
            return TupV([self.ite(c, x, y) for x, y in zip(a.items, b.items)])
        if isinstance(a, MapV) and isinstance(b, MapV):
            return MapV(a.kt, a.vt, z3.If(c, a.dom, b.dom), z3.If(c, a.val, b.val),
                        None if a.size is None or b.size is None else z3.If(c, a.size, b.size))
        if isinstance(a, Ref) and isinstance(b, Ref) and a.rid == b.rid:
            return a
        raise Unsupported("ite over %r / %r" % (a, b))

    def conc_type(self, c):
        v = c.v
        if isinstance(v, bool):
            return BOOL
        if isinstance(v, int):
            return INT
        if isinstance(v, str):
            return STR
        if type(v).__name__ == "EnumMember":
            return INT
        raise Unsupported("type of concrete %r" % (v,))

    # ------------------------------------------------------------------ equality
    def equal(self, a, b):
        """z3 Bool for Python `a == b` on supported values."""
        if isinstance(a, Conc) and isinstance(b, Conc):
            return z3.BoolVal(a.v == b.v)
        if isinstance(a, OptV) or isinstance(b, OptV):
            if isinstance(b, (NoneV,)) or (isinstance(b, Conc) and b.v is None):
                return z3.Not(a.some)
            if isinstance(a, (NoneV,)) or (isinstance(a, Conc) and a.v is None):
                return z3.Not(b.some)
            if isinstance(a, OptV) and isinstance(b, OptV):
                return z3.And(a.some == b.some, z3.Implies(a.some, self.equal(a.val, b.val)))
            if isinstance(a, OptV):
                return z3.And(a.some, self.equal(a.val, b))
            return z3.And(b.some, self.equal(a, b.val))
        if isinstance(a, NoneV) or isinstance(b, NoneV):
            return z3.BoolVal(isinstance(a, NoneV) and isinstance(b, NoneV)
                              or (isinstance(a, Conc) and a.v is None) or (isinstance(b, Conc) and b.v is None))
        if isinstance(a, TupV) and isinstance(b, TupV):
            if len(a.items) != len(b.items):
                return z3.BoolVal(False)
            return z3.And([self.equal(x, y) for x, y in zip(a.items, b.items)] or [z3.BoolVal(True)])
        if isinstance(a, MapV) and isinstance(b, MapV):
            # extensional equality of maps (spec use)
            k = z3.Const(self.fresh_name("eqk"), sort_of(a.kt))
            raise Unsupported("map equality must be written with forall")
        ty = None
        for x in (a, b):
            if isinstance(x, P):
                ty = x.ty
        if ty is None:
            for x in (a, b):
                if isinstance(x, StrOfInt):
                    ty = STR
        if ty is None:
            raise Unsupported("equality of %r and %r" % (a, b))
        # cross-kind comparisons (e.g. str vs int) are False in Python
        try:
            ta, tb = self.term(a, ty), self.term(b, ty)
        except Unsupported:
            if isinstance(a, Conc) or isinstance(b, Conc):
                c = a if isinstance(a, Conc) else b
                if ty == BITS and isinstance(c.v, str):
                    return z3.BoolVal(False)  # a bit string never equals a non-bit literal
                if ty in (STR, BITS) and not isinstance(c.v, str):
                    return z3.BoolVal(False)
                if ty == INT and isinstance(c.v, str):
                    return z3.BoolVal(False)
            raise
        return ta == tb

    # ------------------------------------------------------------------ run a function
    def run_paths(self, body_fn, max_paths=400):
        """Enumerate paths: body_fn() is run once per decision prefix."""
        self.worklist = [[]]
        n = 0
        while self.worklist:
            prefix = self.worklist.pop()
            n += 1
            if n > max_paths:
                raise Unsupported("more than %d paths" % max_paths)
            self.reset_path(prefix)
            try:
                body_fn()
            except PathCut:
                pass
        return n
