"""Property table: which contracts, lemmas, regex obligations and bounded stand-ins decide each property."""

M_IP = "netconan.ip_anonymization:"
M_SI = "netconan.sensitive_item_removal:"
M_AF = "netconan.anonymize_files:"
M_NC = "netconan.netconan:"
M_JS = "netconan.utils.juniper_secrets:"

IP_LEMMAS = ["LA_len", "LA_inj", "LD_len", "LAD", "LDA", "LG_len", "LG_inj", "LA_prefix",
             "S_take_app1", "S_take_app2", "S_take_take", "S_take_drop", "LG_prefix", "T_cpl", "T_perm"]

IP_CORE = [M_IP + "_generate_bit_from_hash", M_IP + "_BaseIpAnonymizer.__init__",
           M_IP + "_BaseIpAnonymizer.anonymize", M_IP + "_BaseIpAnonymizer._anonymize_bits",
           M_IP + "IpV6Anonymizer.__init__"]
IP_UNDO = [M_IP + "_BaseIpAnonymizer.deanonymize", M_IP + "_BaseIpAnonymizer._deanonymize_bits"]

PROPS = {
    "C01": dict(
        level="proof",
        lemmas=IP_LEMMAS,
        functions=IP_CORE,
        standins=[("rt_ip", "C01")],
        design_ref="7/C01",
        technique="deductive verification: home-grown VC generator (Python ast -> SMT) over sidecar contracts "
                  "on the real IP-anonymizer functions; lemmas T_cpl/T_perm by induction; z3+cvc5",
        text="Every obligation of the contracts on _generate_bit_from_hash, _BaseIpAnonymizer.__init__/anonymize/"
             "_anonymize_bits and the subclass constructors is discharged for symbolic width, salt, hash bit "
             "(uninterpreted), host-bit count and seeded set; the property sentence itself is theorem T_cpl/T_perm "
             "over the spec function G that the postcondition ties the code to.",
        note="trusted: assumed contracts E-format, E-bidict, E-md5, P-salter, E-ipaddress; Python semantics encoding "
             "of DESIGN.md 3.3; solvers z3 5.1 / cvc5 1.0.3",
    ),
    "C02": dict(
        level="proof",
        lemmas=IP_LEMMAS,
        functions=IP_CORE + IP_UNDO,
        standins=[("rt_ip", "C02")],
        design_ref="7/C02",
        technique="deductive verification of deanonymize/_deanonymize_bits against spec D/Ginv plus inverse lemmas "
                  "LAD/LDA/T_perm (pyvc VC generator, z3+cvc5)",
        text="deanonymize's postcondition B(result)==Ginv(B(ip_int)) holds for any well-formed memo (in particular the "
             "empty memo of a fresh process); T_perm proves Ginv and G mutually inverse.",
        note="as C01; the file-level statement additionally rests on assumed E-resub (re.sub scanning)",
    ),
    "C03": dict(
        level="proof",
        lemmas=IP_LEMMAS,
        functions=IP_CORE + IP_UNDO,
        standins=[("rt_ip", "C03")],
        design_ref="7/C03",
        technique="class-invariant proof: WF established by constructors and preserved by every public method; "
                  "results equal spec functions of (salt, options, argument) only (pyvc, z3+cvc5)",
        text="WF (memo[k]==G(k) for every key) is established by the constructors and preserved by anonymize, "
             "deanonymize and their helpers; every postcondition is phrased over configuration and argument only, so "
             "induction over request histories follows.",
        note="as C01",
    ),
}
