"""Property table: which contracts, lemmas, regex obligations and bounded stand-ins decide each property."""

M_IP = "netconan.ip_anonymization:"
M_SI = "netconan.sensitive_item_removal:"
M_AF = "netconan.anonymize_files:"
M_NC = "netconan.netconan:"
M_JS = "netconan.utils.juniper_secrets:"

IP_LEMMAS = ["LA_len", "LA_inj", "LD_len", "LAD", "LDA", "LG_len", "LG_inj", "LA_prefix",
             "S_take_app1", "S_take_app2", "S_take_take", "S_take_drop", "LG_prefix", "T_cpl", "T_perm",
             "S_init_take", "S_take_all", "LC_parent", "LC_prefix", "LA_seed", "S_split", "LG_seed",
             "L_sp_mono", "L_initok_add", "S_snoc", "L_sp_in", "T_seedpath", "T_hostbits"]

IP_CORE = [M_IP + "_generate_bit_from_hash", M_IP + "_BaseIpAnonymizer.__init__",
           M_IP + "_BaseIpAnonymizer.anonymize", M_IP + "_BaseIpAnonymizer._anonymize_bits",
           M_IP + "IpV6Anonymizer.__init__", M_IP + "IpAnonymizer.__init__"]
IP_TEXT = [M_IP + "IpAnonymizer._is_mask", M_IP + "IpAnonymizer.should_anonymize",
           M_IP + "_anonymize_match@v4", M_IP + "_anonymize_match@v6",
           M_IP + "anonymize_ip_addr@v4", M_IP + "anonymize_ip_addr@v6"]
IP_DUMP = [M_IP + "_BaseIpAnonymizer.dump_to_file@v4", M_IP + "_BaseIpAnonymizer.dump_to_file@v6"]
IP_UNDO = [M_IP + "_BaseIpAnonymizer.deanonymize", M_IP + "_BaseIpAnonymizer._deanonymize_bits"]

from contracts import regex_obl as _ro   # noqa: E402
# file-level glue every per-line property relies on: one FileAnonymizer per run, every stage once per line with its
# own configuration, one shared secret lookup
GLUE_IO = [M_AF + "FileAnonymizer.anonymize_io"]
# the command line hands every option to anonymize_files unchanged (lists split at commas, private blocks appended)
GLUE_MAIN = [M_NC + "main"]
GLUE = [M_AF + "FileAnonymizer.__init__", M_AF + "FileAnonymizer.anonymize_io", M_AF + "anonymize_files@impl"]
GLUE_ALL = GLUE + GLUE_MAIN
from contracts import cli as _cli        # noqa: E402

def _dedupe(fs):
    out = []
    for f in fs:
        if f not in out:
            out.append(f)
    return out


PROPS = {
    "C01": dict(
        level="proof",
        lemmas=IP_LEMMAS,
        functions=IP_CORE + GLUE + GLUE_MAIN,
        standins=[("rt_ip", "C01")],
        design_ref="7/C01",
        technique="deductive verification: home-grown VC generator (Python ast -> SMT) over sidecar contracts "
                  "on the real IP-anonymizer functions; lemmas T_cpl/T_perm by induction; z3+cvc5",
        text="Every obligation of the contracts on _generate_bit_from_hash, _BaseIpAnonymizer.__init__/anonymize/"
             "_anonymize_bits and the subclass constructors is discharged for symbolic width, salt, hash bit "
             "(uninterpreted), host-bit count and seeded set; the property sentence itself is theorem T_cpl/T_perm "
             "over the spec function G that the postcondition ties the code to.",
        note="trusted: assumed contracts E-format, E-bidict, E-md5, P-salter, E-ipaddress; Python semantics encoding "
             "of DESIGN.md 3.3; solvers z3 5.1 / cvc5 1.0.3",
    ),
    "C02": dict(
        level="proof",
        lemmas=IP_LEMMAS,
        functions=IP_CORE + IP_UNDO + IP_TEXT + GLUE + GLUE_MAIN,
        standins=[("rt_ip", "C02")],
        design_ref="7/C02",
        technique="deductive verification of deanonymize/_deanonymize_bits against spec D/Ginv plus inverse lemmas "
                  "LAD/LDA/T_perm (pyvc VC generator, z3+cvc5)",
        text="deanonymize's postcondition B(result)==Ginv(B(ip_int)) holds for any well-formed memo (in particular the "
             "empty memo of a fresh process); T_perm proves Ginv and G mutually inverse.",
        note="as C01; the file-level statement additionally rests on assumed E-resub (re.sub scanning)",
    ),
    "C03": dict(
        level="proof",
        lemmas=IP_LEMMAS,
        functions=IP_CORE + IP_UNDO + IP_TEXT + GLUE_IO + [M_AF + "anonymize_files@impl"] + GLUE_ALL,
        standins=[("rt_ip", "C03")],
        design_ref="7/C03",
        technique="class-invariant proof: WF established by constructors and preserved by every public method; "
                  "results equal spec functions of (salt, options, argument) only (pyvc, z3+cvc5)",
        text="WF (memo[k]==G(k) for every key) is established by the constructors and preserved by anonymize, "
             "deanonymize and their helpers; every postcondition, also of the text-level functions "
             "_anonymize_match / anonymize_ip_addr for both directions, is phrased over configuration and argument "
             "only, so induction over request histories follows; anonymize_files builds one FileAnonymizer for the "
             "whole run and anonymize_io hands its two IP anonymizers to the IP stages on every line.",
        note="as C01",
    ),
    "C04": dict(
        level="proof",
        lemmas=IP_LEMMAS,
        functions=IP_CORE + GLUE + GLUE_MAIN,
        standins=[("rt_ip", "C04")],
        design_ref="7/C04",
        technique="deductive verification of the seeding loops of IpAnonymizer.__init__ (loop invariants, opaque "
                  "predicates InitOK/SeededPath) plus theorems T_seedpath and T_hostbits over spec G (pyvc, z3+cvc5)",
        text="The constructor's postcondition (every listed prefix - defaults from the property text or the user's "
             "list, plus preserved networks - has a fully seeded path) is proved with inductive loop invariants; "
             "T_seedpath proves inside<->inside for any seeded path and T_hostbits proves that the trailing bits are "
             "copied and the leading image bits depend only on the leading input bits.",
        note="as C01 plus E-ipaddress (ip_network/prefixlen/network_address, literal networks evaluated with the "
             "stdlib); exactness of the seeded set (nothing else pinned) is not claimed",
    ),
    "C05": dict(
        level="proof",
        lemmas=IP_LEMMAS,
        functions=IP_CORE + IP_TEXT + GLUE + GLUE_MAIN,
        standins=[("rt_ip", "C05")],
        design_ref="7/C05",
        technique="bit-vector proof of _is_mask against the 66-disjunct spec; contracts on should_anonymize and "
                  "_anonymize_match (skip branch returns the text as written); seeding post + T_seedpath (pyvc, z3+cvc5)",
        text="_is_mask equals the mask/wildcard set of the statement on all of [0,2^32) (64-bit vectors with no-wrap "
             "obligations); should_anonymize is false exactly for masks and members of a preserved network; "
             "_anonymize_match then returns the matched text itself; preserved networks are seeded by the constructor "
             "so T_seedpath excludes collisions.",
        note="as C04 plus E-dropzeros (value of a dotted quad with leading zeros: trusted contract on make_addr) and "
             "E-resub",
    ),
    "C17": dict(
        level="proof",
        lemmas=IP_LEMMAS,
        functions=IP_CORE + IP_UNDO + IP_TEXT + IP_DUMP + GLUE_IO + [M_AF + "anonymize_files@impl"] + GLUE_ALL,
        standins=[("rt_ip", "C17")],
        design_ref="7/C17",
        technique="contract on dump_to_file (loop invariant over the dict enumeration, ghost output stream) + WF "
                  "(memo[k]==G(k)) + coverage postconditions of anonymize/_anonymize_match (pyvc, z3+cvc5)",
        text="anonymize ensures the full address is a memo key and every method only extends the memo; "
             "dump_to_file writes, for every full-length key, the line built from the key and its memoised image "
             "(= G(key) by WF), and adds at most one line per entry; anonymize_files dumps the maps of the one "
             "FileAnonymizer that served every file, after the per-file loop, into the named file only.",
        note="as C01 plus E-dict-iteration, E-ipaddress (str of an address is injective: assumed, not used in the "
             "proof obligations), E-os (write appends to the file only)",
    ),
    "C06": dict(
        level="other",
        lemmas=[],
        functions=[M_IP + "_anonymize_match@v4", M_IP + "_anonymize_match@v6",
                   M_IP + "anonymize_ip_addr@v4", M_IP + "anonymize_ip_addr@v6", M_IP + "IpAnonymizer.should_anonymize",
                   M_IP + "IpAnonymizer._is_mask"] + GLUE_IO + GLUE_ALL,
        generators=[_ro.gen_ipv4, _ro.gen_ipv6],
        standins=[("rt_text", "C06")],
        design_ref="7/C06",
        technique="regular-language obligations generated from the real IPv4/IPv6 patterns (CPython's own regex parser -> "
                  "SMT RegLan, decided by z3) against spec languages written from the statement; contract on "
                  "_anonymize_match for the replacement text",
        text="Pinned token context, body within the token alphabet and language equivalence of the real patterns with "
             "independent spec languages (dotted quad with leading zeros; RFC 4291 forms) are decided for all strings; "
             "with the assumed scanning contract of re.sub this gives: a standalone token is replaced iff it is a valid "
             "address, by the canonical text of its image.  The IPv4-style-tail sub-claim fails on the real pattern "
             "(known finding, witness ::ffff:1.2.3.4).",
        note="E-resub (re.sub scans left to right, first alternative that succeeds, look-arounds on the original text) "
             "is assumed and validated only by the bounded stand-in; E-ipaddress; E-dropzeros",
    ),
    "C11": dict(
        level="proof",
        lemmas=[],
        functions=[M_SI + "AsNumberAnonymizer._generate_as_number_replacement",
                   M_SI + "AsNumberAnonymizer.__init__",
                   M_SI + "AsNumberAnonymizer.anonymize",
                   M_SI + "anonymize_as_numbers"] + GLUE_IO + GLUE_ALL,
        generators=[_ro.gen_as_regex],
        standins=[("rt_text", "C11")],
        design_ref="7/C11",
        technique="deductive verification of _generate_as_number_replacement against the four block limits of the "
                  "statement (linear integer arithmetic, md5 uninterpreted), of AsNumberAnonymizer.__init__/anonymize "
                  "and anonymize_as_numbers (re.sub with a callable as an invariant loop: each match is a listed number "
                  "and is replaced by its own replacement, once), the pipeline trace of anonymize_io + regular-language "
                  "obligations on the real regex template (digit-pinned context)",
        text="For every digit string up to 4294967295 and every hash value the replacement lies in the same block and "
             "is a function of salt and number; ValueError exactly above the range; the regex template matches exactly "
             "maximal digit runs equal to a listed number.",
        note="E-md5, E-hex, E-resub; as_numbers is a non-empty list of digit strings (an empty list through the library "
             "API is outside the stated precondition)",
    ),
    "C18": dict(
        level="other",
        lemmas=[],
        functions=[M_JS + "_gap", M_JS + "_nibble", M_JS + "_fixedc", M_JS + "_gap_encode",
                   M_JS + "_gap_decode@g2", M_JS + "_gap_decode@g3", M_JS + "_gap_decode@g4",
                   M_JS + "juniper_nonrandom_encrypt"],
        generators=[_ro.gen_juniper_valid],
        standins=[("rt_text", "C18")],
        design_ref="7/C18",
        technique="deductive per-group round-trip proof on the real _gap_encode (all 7 ENCODING rows, all code points "
                  "0..255, all previous characters), exception-freedom and shape of juniper_nonrandom_encrypt for every "
                  "salt, regular-language obligations on VALID; decrypt loop and whole-string round trip by a bounded "
                  "run-time check",
        text="Proved: each group produced by _gap_encode decodes to its character and stays in the alphabet (the "
             "arithmetic core: gap offsets, % 65, % 256, table contents); _gap_decode returns the character whose code is "
             "the weighted gap sum modulo 256 for every row and refuses a gap list of another length (list modelled "
             "as a tuple of length 2, 3, 4 - the group lengths of ENCODING); encrypt raises nothing for any salt string and "
             "yields $9$ + salt character + groups; VALID is exactly $9$ + at least four alphabet characters anchored at "
             "the very end.  NOT proved (bounded only): the loop-level composition decrypt(encrypt(p, s)) == p and that "
             "decrypt raises only ValueError.",
        note="the decrypt loop invariant (characters stay in the alphabet under slicing, positional decoding) did not "
             "discharge within budget with z3/cvc5 (see DESIGN.md); E-resub for re.search",
    ),
    "C07": dict(
        level="other",
        lemmas=[],
        functions=[M_SI + "_anonymize_value", M_SI + "_check_sensitive_item_format", M_SI + "_extract_enclosing_text",
                   M_SI + "replace_matching_item"] + GLUE_IO + GLUE_ALL,
        generators=[_ro.gen_catchall],
        standins=[("rt_files", "C07")],
        design_ref="7/C07",
        technique="contracts on "
                  "_anonymize_value/_check_sensitive_item_format/_extract_enclosing_text/replace_matching_item (every "
                  "match of a line regex is replaced by the anonymization of its own secret group) and the pipeline "
                  "trace of anonymize_io, discharged by the pyvc VC generator (z3+cvc5); regular-language obligations "
                  "on the catch-all hash patterns (every well-formed $9$ / md5-crypt string lies in the pattern's "
                  "language); which token each keyword regex captures is checked bounded, also over the ~190 sample "
                  "line forms of the repository's own test data",
        text="Proved for all inputs: the replacement is head + pseudonym + tail where the pseudonym is the stored one or "
             "built from the lookup size and the format class (a function of FmtSpec(val), never of val's characters "
             "beyond its class and md5 salt length), the lookup only grows by one entry, reserved/empty values are "
             "returned as written.  NOT decidable here: capture-group extents of the backtracking line regexes (which "
             "token is the secret) - bounded over 25 line forms x 7 classes; known finding: an all-digit secret after "
             "'password' is taken for the optional type digit.",
        note="E-passlib, E-b2a_hex, E-resub, trusted contracts on juniper_decrypt / the round-trip clauses of "
             "juniper_nonrandom_encrypt (C18)",
    ),
    "C08": dict(
        level="other",
        lemmas=[],
        functions=[M_SI + "_anonymize_value", M_SI + "_extract_enclosing_text", M_SI + "replace_matching_item"] + GLUE + GLUE_ALL,
        generators=[_ro.gen_catchall],
        standins=[("rt_files", "C08")],
        design_ref="7/C08",
        technique="lookup contract of _anonymize_value (hit returns the stored replacement, entries never change, one "
                  "new entry per new secret), fix-point contract of _extract_enclosing_text, replace_matching_item, and "
                  "the file-level glue (FileAnonymizer.__init__ creates the one lookup, anonymize_io hands it to the "
                  "secrets stage on every line, anonymize_files builds one FileAnonymizer per run), discharged by pyvc; "
                  "injectivity of the hash renderings assumed",
        text="Equal keys give equal replacements for every history of the lookup (invariant: entries are never removed "
             "or changed); the key is the value with all enclosing text stripped (Stripped is proved for the returned "
             "value), so quoting does not matter; $9$ values are keyed by their decryption (trusted contract).  Distinct "
             "secrets get distinct pseudonym bases netconanRemoved<size>; that their type-7/$1$/$6$ renderings differ is "
             "assumed of passlib.",
        note="E-passlib collision-freedom is assumed and untestable; $9$ decrypt/encrypt round trip is the trusted "
             "contract checked bounded under C18",
    ),
    "C09": dict(
        level="other",
        lemmas=[],
        functions=[M_SI + "_check_sensitive_item_format", M_SI + "_anonymize_value", M_SI + "_extract_enclosing_text",
                   M_SI + "replace_matching_item"] + GLUE_IO + GLUE_ALL,
        generators=[_ro.gen_catchall],
        standins=[("rt_files", "C09")],
        design_ref="7/C09",
        technique="_check_sensitive_item_format proved equal to the class function of the statement (regular-language "
                  "membership atoms, z3); head/tail preservation clauses of _anonymize_value; passlib call-site "
                  "preconditions (salt=9, salt length <= 8, rounds=5000); format of passlib output assumed + bounded",
        text="The classifier equals FmtSpec (priority digits > type 7 > hex > $1$ > $6$ > $9$ > text) on all strings; "
             "the result starts with the extracted head and ends with the extracted tail and head+value+tail is the "
             "input; passlib is called within its preconditions for every input.  That passlib's output has the "
             "promised shape is assumed and checked bounded (type 7 decoded, $1$ salt length, $6$ without rounds, $9$ "
             "decrypted).",
        note="E-passlib, E-b2a_hex; text before/after the secret on the line depends on regex capture extents (bounded)",
    ),
    "C19": dict(
        level="other",
        lemmas=[],
        functions=[M_NC + "main", M_NC + "host_bits"] + GLUE_ALL,
        generators=[_cli.gen_parse_args_decl, _cli.gen_facade_covers_impl],
        standins=[("rt_files", "C19")],
        design_ref="7/C19",
        technique="deductive verification of main (parsed options symbolic, ghost record of the call to "
                  "anonymize_files) and host_bits with pyvc; declarative obligations on the add_argument calls; "
                  "config-file precedence is behaviour of configargparse (bounded run only)",
        text="Proved for every option record: a contradictory/unusable combination raises ValueError before "
             "anonymize_files (the only writer) is called, and no such combination returns normally; any other "
             "failure comes out of anonymize_files; with no anonymization option it is not called; otherwise "
             "called exactly once with input/output/flags/salt/dump file bound to the documented sources, the same "
             "host-bit count for both families, and the three RFC 1918 networks as preserved addresses iff "
             "--preserve-private-addresses; host_bits accepts exactly 0..32; defaults 8 / class+private prefixes "
             "are what add_argument declares.  NOT applicable to contracts on netconan code: command line vs "
             "config file precedence (configargparse) - bounded over 4 equivalences and 3 rejected config-file "
             "combinations.",
        note="E-argparse (trusted contract on _parse_args: one record per dest); main sees anonymize_files through "
             "a facade contract that is mechanically checked to be covered by the verified anonymize_files@impl; "
             "int(str) modelled on the plain-digit domain",
    ),
    "C10": dict(
        level="other",
        lemmas=[],
        functions=[M_AF + "FileAnonymizer.__init__", M_SI + "_anonymize_value",
                   M_SI + "SensitiveWordAnonymizer.__init__",
                   M_SI + "SensitiveWordAnonymizer._generate_conflicting_reserved_word_list",
                   M_SI + "SensitiveWordAnonymizer._generate_sensitive_word_regex",
                   M_SI + "SensitiveWordAnonymizer._get_or_generate_sensitive_word_replacement",
                   M_SI + "SensitiveWordAnonymizer.anonymize"] + GLUE_IO + GLUE_ALL,
        standins=[("rt_files", "C10")],
        design_ref="7/C10",
        technique="contracts on FileAnonymizer.__init__ (the word stage receives built-in + user reserved words, the "
                  "user's words are in the per-instance set, no global set is written), on the reserved-word clause of "
                  "_anonymize_value, on the word anonymizer (memo of replacements, conflicting reserved words, "
                  "deterministic regex construction, anonymize as a re.sub loop) and the pipeline trace of anonymize_io "
                  "(the word stage runs exactly once on every line), discharged by pyvc; what the compiled alternation "
                  "matches depends on re scanning and is checked bounded",
        text="Proved: the reserved set handed to the word anonymizer and to secret anonymization is exactly "
             "built-in plus user words; a secret value that is a reserved word is returned as written; every match "
             "of the word regex is replaced by the memoised pseudonym, a function of salt and lower-cased match "
             "only; the alternation is built from the sorted, escaped words (longest first) independent of set "
             "order; the stage is applied to every line whatever the secrets stage did to it.  NOT proved: that "
             "the compiled alternation finds every occurrence in any letter case (re scanning, IGNORECASE) - "
             "bounded over 5 word lists x 3 reserved sets x hash seeds and 8 lines mixing words with secrets.",
        note="E-resub (matching of the compiled alternation is opaque); E-md5",
    ),
    "C12": dict(
        level="other",
        lemmas=[],
        functions=[M_AF + "FileAnonymizer.anonymize_io", M_SI + "_split_line", M_SI + "_extract_enclosing_text",
                   M_SI + "SensitiveWordAnonymizer.anonymize", M_SI + "replace_matching_item"] + GLUE_ALL + IP_TEXT + [M_SI + "anonymize_as_numbers", M_SI + "AsNumberAnonymizer.anonymize"],
        standins=[("rt_files", "C12")],
        design_ref="7/C12",
        technique="loop invariant + ghost call trace on anonymize_io (one write per input line, in order, each the "
                  "result of the stage chain applied to that line), contracts on _split_line and "
                  "_extract_enclosing_text (outer whitespace and enclosing text conserved), discharged by pyvc",
        text="Proved: anonymize_io writes exactly one line per line read, in order, and what it writes for a line "
             "is the chain of the enabled stages applied to that line only; _split_line returns the "
             "leading/trailing whitespace of the line and _extract_enclosing_text conserves head+value+tail; "
             "replace_matching_item inserts literal text (function replacement) around the anonymized value; the "
             "word stage only substitutes matches.  NOT proved: which tokens the line regexes capture (regex "
             "capture extents) - bounded over 15 feature subsets x 5 texts and 11 tokens with backslash/template "
             "characters x 5 secret line forms.",
        note="E-resub, E-strws; E-os (readlines)",
    ),
    "C13": dict(
        level="other",
        lemmas=[],
        functions=[M_IP + "_generate_bit_from_hash", M_IP + "_BaseIpAnonymizer.__init__", M_IP + "IpAnonymizer.__init__",
                   M_IP + "IpV6Anonymizer.__init__", M_SI + "_anonymize_value", M_SI + "_check_sensitive_item_format",
                   M_SI + "_extract_enclosing_text", M_SI + "AsNumberAnonymizer._generate_as_number_replacement",
                   M_JS + "juniper_nonrandom_encrypt", M_JS + "_gap_encode", M_AF + "FileAnonymizer.__init__",
                   M_AF + "FileAnonymizer.anonymize_io", M_SI + "replace_matching_item", M_SI + "SensitiveWordAnonymizer.__init__", M_SI + "SensitiveWordAnonymizer._generate_sensitive_word_regex", M_SI + "SensitiveWordAnonymizer._get_or_generate_sensitive_word_replacement", M_SI + "AsNumberAnonymizer.__init__", M_AF + "anonymize_files@impl"] + GLUE_ALL,
        only=["#deterministic", "#frame", "post.2", "post.1"],
        standins=[("rt_files", "C13")],
        design_ref="7/C13",
        technique="determinism and frame obligations of pyvc on every function under contract: nondeterministic "
                  "sources (random.choice, library-generated salts) are havoc'd symbols that must not reach results or "
                  "post-state; writes to module-level containers and to caller-owned lists are frame violations",
        text="Proved: no result or post-state of the functions under contract depends on a havoc'd source except "
             "the generated salt when none is supplied (which is logged at WARNING and used by every stage); no "
             "module-level container is written; the caller's option lists are not modified; the word regex is "
             "built from a sorted sequence, so set iteration order (an arbitrary enumeration in the model) cannot "
             "reach it.  Also checked bounded in subprocesses with different PYTHONHASHSEED.",
        note="purity of hashlib/passlib/ipaddress is assumed",
    ),
    "C14": dict(
        level="other",
        lemmas=IP_LEMMAS,
        functions=[M_IP + "_anonymize_match@v4", M_IP + "_anonymize_match@v6", M_IP + "anonymize_ip_addr@v4",
                   M_IP + "anonymize_ip_addr@v6", M_IP + "IpAnonymizer.should_anonymize", M_IP + "IpAnonymizer._is_mask",
                   M_IP + "_BaseIpAnonymizer.anonymize", M_IP + "_BaseIpAnonymizer._anonymize_bits",
                   M_IP + "_BaseIpAnonymizer.deanonymize", M_IP + "_BaseIpAnonymizer._deanonymize_bits",
                   M_SI + "_anonymize_value", M_SI + "_extract_enclosing_text", M_SI + "_check_sensitive_item_format",
                   M_SI + "_split_line", M_SI + "AsNumberAnonymizer._generate_as_number_replacement",
                   M_JS + "juniper_nonrandom_encrypt", M_JS + "_gap_encode", M_JS + "_gap", M_JS + "_fixedc",
                   M_AF + "FileAnonymizer.anonymize_io", M_SI + "replace_matching_item", M_SI + "SensitiveWordAnonymizer.__init__", M_SI + "SensitiveWordAnonymizer._generate_conflicting_reserved_word_list", M_SI + "SensitiveWordAnonymizer._generate_sensitive_word_regex", M_SI + "SensitiveWordAnonymizer._get_or_generate_sensitive_word_replacement", M_SI + "SensitiveWordAnonymizer.anonymize", M_SI + "AsNumberAnonymizer.__init__", M_SI + "AsNumberAnonymizer.anonymize", M_SI + "anonymize_as_numbers"] + GLUE_ALL,
        generators=[_ro.gen_juniper_valid],
        only=["#safe", "#raises", "#call", "decreases", "returns_a_value", "#enc", "#unroll", "juniper.VALID#"],
        standins=[("rt_files", "C14")],
        design_ref="7/C14",
        technique="exception-freedom obligations of pyvc (every indexing, dict lookup, int(), chr(), library "
                  "precondition and call-site precondition; termination measures) on the functions in reach, for any "
                  "line, any salt string and valid options",
        text="Proved: no operation of the listed functions can raise for any input (text the address parser "
             "rejects is returned unchanged; md5 salt capped at 8; any salt string for $9$; bidict value "
             "uniqueness; terminating loops/recursion; replace_matching_item and the word anonymizer included).  "
             "Out of reach: exceptions inside re.search/sub on the opaque line patterns, juniper_decrypt (trusted "
             "contract: ValueError only) and library code under its assumed preconditions - bounded over 7 salts x "
             "5 feature sets x hostile lines.",
        note="E-passlib/E-ipaddress/E-bidict preconditions as stated; lone surrogates excluded",
    ),
    "C15": dict(
        level="proof",
        lemmas=[],
        functions=[M_AF + "FileAnonymizer.__init__", M_AF + "FileAnonymizer.anonymize_io"] + GLUE_ALL,
        standins=[("rt_files", "C15")],
        design_ref="7/C15",
        technique="contract on FileAnonymizer.__init__ (each stage configured from its own options and the common salt "
                  "only) + ghost call trace on anonymize_io's loop body (stages uninterpreted): fixed order secrets, "
                  "IPv6, IPv4, words, AS numbers, each fed the previous result, absent stages skipped (pyvc)",
        text="With the stages uninterpreted, the per-line term written by anonymize_io is "
             "S_as(S_word(S_ip4(S_ip6(S_pwd(line))))) with absent stages = identity, for every feature subset "
             "(undo passed to both IP stages), and the configuration of each stage object is a function of that "
             "stage's own options and the salt only - which is composition of the single-feature anonymizers.",
        note="stage functions are contracts (trusted for secrets/words/AS numbers, verified for IP); state shared "
             "between stages does not exist (frame of each stage contract)",
    ),
    "C16": dict(
        level="other",
        lemmas=[],
        functions=[M_AF + "FileAnonymizer.anonymize_io", M_AF + "FileAnonymizer.anonymize_file",
                   M_AF + "anonymize_files@impl", M_NC + "main"] + GLUE_ALL,
        generators=[_cli.gen_facade_covers_impl],
        standins=[("rt_files", "C16")],
        design_ref="7/C16",
        technique="contracts on anonymize_io (reading fails before any state change or write: exceptional "
                  "postcondition), on anonymize_files (ghost trace of open/makedirs per file, mirrored-path invariant of "
                  "the walk loop, no exception escapes the per-file loop) and on main (anonymize_files is the only "
                  "writer, called once) by pyvc over an assumed model of os/open (E-os); what the OS leaves on disk and "
                  "that every non-hidden file is listed exactly once are checked bounded",
        text="Proved: a file whose reading fails leaves the shared secret lookup and the output stream untouched "
             "(fault isolation at the stream level); anonymize_file opens its input for reading and then its "
             "output for writing, both the default way, and applies the stream function once; in anonymize_files "
             "every (input, output) pair is the named pair or the same non-hidden name under the same relative "
             "directory of input and output root, each iteration opens only its own input for reading and its own "
             "output for writing (no newline/encoding option, as in anonymize_file) and creates only the output's "
             "parent directory, one FileAnonymizer is built from the function's own arguments, no failure of one "
             "file escapes the loop (only the initial rejection, before any open, and an unwritable map file, "
             "after all files), and every entry point funnels into anonymize_io.  NOT decidable by contracts "
             "within reach: what os.walk lists and what open/makedirs leave on disk (E-os is an assumed model), "
             "completeness/multiplicity of the file list - bounded over generated trees with hidden files, Unicode "
             "names, undecodable bytes early and late, pre-existing outputs, a directory in the way, five "
             "spellings of the paths, and CRLF/CR/unterminated/Unicode files through all three entry points.",
        note="E-os (os.path.*, os.walk, os.makedirs, open as uninterpreted observations with a ghost call record)",
    ),
}

for _p in PROPS.values():
    _p["functions"] = _dedupe(_p["functions"])
