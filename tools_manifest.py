"""Regenerate MANIFEST.json from props.py (run: python3-vt tools_manifest.py)."""
import json, sys, os
sys.path.insert(0, os.path.dirname(os.path.abspath(__file__)))
import props

ALL = [json.loads(l)["id"] for l in open(os.path.join(os.path.dirname(os.path.abspath(__file__)), "properties.jsonl"))]
NA_REASONS = getattr(props, "NOT_APPLICABLE", {})
checks = []
for pid in ALL:
    p = props.PROPS.get(pid)
    if not p or p.get("disabled"):
        continue
    checks.append({
        "property_id": pid,
        "quick_cmd": "bin/check %s --tier quick" % pid,
        "thorough_cmd": "bin/check %s --tier thorough" % pid,
        "evidence_file": "evidence/%s.json" % pid,
        "replay_cmd_template": "bin/check %s --replay {path}" % pid,
        "engine": "pyvc",
        "level_claimed": {"category": p["level"], "text": p["text"], "design_ref": "DESIGN.md section " + p.get("design_ref", "7")},
        "level_note": p["note"],
        "technique": p["technique"],
    })
m = {
    "version": 1,
    "setup_cmd": "python3-vt -c \"import z3,cvc5\" && /usr/bin/cvc5 --version >/dev/null && /venv/bin/python -c \"import netconan\"",
    "hooks": {"guard": "NETCONAN_VERIF", "enable": "no hooks: the machinery parses /repo's working tree and imports it in /venv/bin/python; no source commit is needed",
              "baseline_off_cmd": "cd /repo && /venv/bin/python -m pytest -q -p no:cacheprovider", "source_commits": [], "add_only": True},
    "engines": [{"name": "pyvc", "path": "pyvc/", "serves_properties": [c["property_id"] for c in checks],
                 "kind_free_text": "contract-based deductive verifier built for this task: symbolic execution of the real Python ast against sidecar contracts (contracts/), quantifier-free VCs discharged by z3 5.1 (API) and cvc5 1.0.3 (CLI); bounded run-time stand-ins under pyvc/rt/ (labelled, never counted as proved)"}],
    "checks": checks,
    "notes": "Exit codes of bin/check: 0 held, 1 VIOLATION, 2 undecided, 3 checker error. See DESIGN.md.",
    "not_applicable": [{"property_id": pid, "reason": NA_REASONS.get(pid, "check not built yet (work in progress, see DESIGN.md section 12)")}
                       for pid in ALL if pid not in [c["property_id"] for c in checks]],
}
json.dump(m, open(os.path.join(os.path.dirname(os.path.abspath(__file__)), "MANIFEST.json"), "w"), indent=1)
print("checks:", [c["property_id"] for c in checks])
